//! No-op stand-in for `human-panic`, used ONLY in the scratch copy that Kani compiles.
//! The real crate pulls in `backtrace`, which does not compile under Kani's macro overrides.
//! `setup_panic!` is used only in `init::run()` (process entry), which no harness calls.
#[macro_export]
macro_rules! setup_panic {
    () => {};
}
