#!/usr/bin/env python3
"""Summarises /tmp/seedrun_*.out (runs of `./check <prop> --patch <seed>`) into seeded/RESULTS.md and the seeds' meta.json."""
import glob, json, os, re
ROOT = os.path.dirname(os.path.dirname(os.path.abspath(__file__)))
rows = []
# runs with the final machinery; for seeds not re-run after the support-code refactor (unique-content statics,
# 2026-10-04 afternoon) the last earlier run is used and marked as such
files = {}
for f in sorted(glob.glob("/tmp/seedrun_old/seedrun_*.out")) + sorted(glob.glob("/tmp/seedrun_old/regrun_*.out")):
    files[os.path.basename(f)] = (f, "earlier run (before the support-code refactor)")
for f in sorted(glob.glob("/tmp/seedrun_*.out")) + sorted(glob.glob("/tmp/regrun_*.out")):
    if re.search(r"^(OK|VIOLATION|INCONCLUSIVE) property=", open(f, errors="replace").read(), re.M):
        files[os.path.basename(f)] = (f, "final machinery")
for base in sorted(files):
    f, era = files[base]
    m = re.match(r"(?:seed|reg)run_(C\d+)_(.*)\.out", base)
    prop, seed = m.group(1), m.group(2)
    txt = open(f, errors="replace").read()
    viol = re.findall(r"^VIOLATION property=\S+ replay=replays/\S+/(\S+?)_\d+$", txt, re.M)
    inconc = re.findall(r"^INCONCLUSIVE property=\S+ harness=(\S+) reason=(.*)$", txt, re.M)
    ok = re.search(r"^OK property=", txt, re.M)
    failed = re.findall(r"^  (\S+): \d+ failed check", txt, re.M)
    if viol:
        verdict = "caught (exit 1, replayed natively)"
        by = sorted(set(viol))
    elif failed:
        verdict = "solver counterexample, native replay not obtained (exit 2)"
        by = sorted(set(failed))
    elif inconc:
        verdict = "inconclusive (exit 2): " + inconc[0][1][:80]
        by = sorted(set(h for h, _ in inconc))
    elif ok:
        verdict = "MISSED (exit 0)"
        by = []
    else:
        verdict = "run incomplete"
        by = []
    rows.append((prop, seed, verdict, by, era))
    d = os.path.join(ROOT, "seeded", seed)
    mp = os.path.join(d, "meta.json")
    if os.path.exists(mp):
        meta = json.load(open(mp))
        meta.setdefault("check_runs", {})[prop] = dict(verdict=verdict, harnesses=by, run=era, command="./check %s --patch seeded/%s/patch.diff" % (prop, seed))
        meta["detected_by"] = by if viol else meta.get("detected_by")
        json.dump(meta, open(mp, "w"), indent=1)
with open(os.path.join(ROOT, "seeded", "RESULTS.md"), "w") as out:
    out.write("| seeded change | checked with | verdict | harnesses | run |\n|---|---|---|---|---|\n")
    for prop, seed, verdict, by, era in rows:
        out.write("| %s | ./check %s | %s | %s | %s |\n" % (seed, prop, verdict, ", ".join(by), era))
print(open(os.path.join(ROOT, "seeded", "RESULTS.md")).read())
