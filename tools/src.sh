#!/bin/bash
# print rust source files without their trailing #[cfg(test)] mod and without doc comments (reading aid only)
for f in "$@"; do echo "=== $f"; awk '/^#\[cfg\(test\)\]/{exit} {print}' "$f" | grep -vE '^\s*//' ; done
