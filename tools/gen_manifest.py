#!/usr/bin/env python3
"""Regenerates MANIFEST.json from the table below (kept by hand)."""
import json, os
ROOT = os.path.dirname(os.path.dirname(os.path.abspath(__file__)))

TECH = "bounded symbolic execution of the compiled code (Kani 0.68 -> CBMC 6.11 -> CaDiCaL), solver verdict over all inputs within stated bounds, native replay of counterexamples"
NOTE = ("Trusted: rustc MIR, Kani's translation, CBMC, CaDiCaL; the hand-written reference predicates under /verif/oracle (written from doc/checks_list.md, "
        "the .puml diagram and README; cross-checked natively against tests/test-data by tools/refcheck); the stubs listed in each evidence file "
        "(fmt::format, fmt::write, flume send, report_error observation). Dev profile semantics. Nothing outside the per-harness bounds is claimed.")

CLAIMED = {
    "C11": ("All 2^80 values of each status word and all data-word ids x lane masks: the implementation's sanity verdict equals the documented rule. The kernels are decided over their whole input domain; the level stays 'other' (bounded symbolic execution) because the engine is a bounded model checker, not a proof assistant.", "DESIGN.md §2 C11"),
}

NA = {
    "C05": "thread schedules: Kani does not execute threads (std::thread::current() crashes kani-compiler); the canonicalising step is a regex-keyed unstable sort, not encodable within reach (DESIGN.md §2 C05)",
    "C06": "compares whole multi-threaded runs (dispatcher spawns per-link threads inside the routing function); not executable symbolically; the filter half is decided under C03/C08 (DESIGN.md §2 C06)",
    "C17": "signals, closed pipes, blocked channels, joins: OS/scheduler level, outside symbolic execution of the code (DESIGN.md §2 C17)",
}
NOT_YET = "check not built yet in this session (planned, see DESIGN.md §2); not claimed until its harnesses pass on the unchanged tree"

def main():
    props = [json.loads(l)["id"] for l in open(os.path.join(ROOT, "properties.jsonl"))]
    checks = []
    na = []
    for p in props:
        if p in CLAIMED:
            text, ref = CLAIMED[p]
            checks.append(dict(property_id=p, quick_cmd="./check %s --tier quick" % p, thorough_cmd="./check %s --tier thorough" % p,
                               evidence_file="evidence/%s.json" % p, replay_cmd_template="./check %s --replay {path}" % p,
                               engine="kani", level_claimed=dict(category="other", text=text, design_ref=ref),
                               level_note=NOTE, technique=TECH))
        else:
            na.append(dict(property_id=p, reason=NA.get(p, NOT_YET)))
    m = dict(version=1, setup_cmd="./check --setup",
             hooks=dict(guard="cfg(kani) — harness modules are attached to a scratch copy of /repo only; no source change in /repo is needed by the machinery",
                        enable="./check copies /repo's working tree to /var/tmp/fpverif.*, appends `#[cfg(kani)] #[path=..] mod ..;` lines there and runs cargo kani",
                        baseline_off_cmd="cd /repo && cargo nextest run --workspace --no-fail-fast --offline || cargo test --workspace --no-fail-fast --offline",
                        source_commits=[], add_only=True),
             engines=[dict(name="kani", path="/root/.kani/kani-0.68.0", serves_properties=sorted(CLAIMED), kind_free_text="Kani 0.68.0 (MIR -> goto-program), CBMC 6.11.0, CaDiCaL; cargo kani playback for native replay")],
             checks=checks, not_applicable=na,
             notes="Exit codes: 0 held; 1 + VIOLATION line (counterexample reproduced natively); 2 + INCONCLUSIVE line (build failure, vacuous harness, resource cap, non-reproducing counterexample) — never reported as held.")
    json.dump(m, open(os.path.join(ROOT, "MANIFEST.json"), "w"), indent=1)
    print("MANIFEST.json: %d checks, %d not_applicable" % (len(checks), len(na)))
main()
