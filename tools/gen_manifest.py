#!/usr/bin/env python3
"""Regenerates MANIFEST.json from the table below (kept by hand)."""
import json, os
ROOT = os.path.dirname(os.path.dirname(os.path.abspath(__file__)))

TECH = "bounded symbolic execution of the compiled code (Kani 0.68 -> CBMC 6.11 -> CaDiCaL), solver verdict over all inputs within stated bounds, native replay of counterexamples"
NOTE = ("Trusted: rustc MIR, Kani's translation, CBMC, CaDiCaL; the hand-written reference predicates under /verif/oracle (written from doc/checks_list.md, "
        "the .puml diagram and README; cross-checked natively against tests/test-data by tools/refcheck); the stubs listed in each evidence file "
        "(fmt::format, fmt::write, flume send, report_error observation). Dev profile semantics. Nothing outside the per-harness bounds is claimed.")

K = "bounded symbolic execution (Kani/CBMC): the solver decides the assertion for every value of the symbolic inputs inside the bounds listed in the evidence file; nothing is claimed outside them. "
CLAIMED = {
    "C01": (K + "Conforming words/headers are accepted: the accept-halves of the exact header/word predicates (all 2^512 / 2^80 values), the FSM bisimulation (no allowed sequence is reported) and one inductive step of the composed payload validator per state and word class with a conforming word => zero reports. Whole streams, several links and stave-level checks are outside.", "DESIGN.md §2 C01, §7"),
    "C02": (K + "Fault catalogue, one documented rule at a time: each broken rule is reported with its documented code family at the offending word's offset (symbolic offset, data format) and running rules are silent under check sanity; exit-status table for all inputs. Simultaneous faults and CLI plumbing are outside.", "DESIGN.md §2 C02, §7"),
    "C03": (K + "One inductive step of the scanner (load_cdp from an arbitrary position; sizes and filter decisions concrete per instance, all other header/payload bytes symbolic) establishes offset/field/payload truthfulness and the position invariant, which covers chains of any length; offset range and filter predicates for all values. Real files/pipes and the 100-packet batching are outside.", "DESIGN.md §2 C03, §7.2(4)"),
    "C04": (K + "Unit-level crash freedom in release semantics for the input-facing units that could be encoded (lane checks, FEE ids, RDH validators, chunking, ALPIDE decoder step, truncation). It is NOT a statement about the process: threads, signals, stdout and stave-mode word processing are outside.", "DESIGN.md §2 C04, §7.2(6)"),
    "C07": (K + "Composition of solver-decided facts: true packet offset and bytes from the scanner step, chunk i = slice at i*slot, every report of a validator step carries offset + 64 + index*slot and quotes exactly the word's bytes, offset formulas for all indices.", "DESIGN.md §2 C07"),
    "C08": (K + "Header re-serialisation is the identity for all 2^512 headers; the scanner step delivers exactly the matching packets' bytes; match predicates for all values. The writer's buffer/flush logic (best-effort harness exhausts memory), files, stdout and threads are outside.", "DESIGN.md §2 C08"),
    "C09": (K + "The payload state machine is bisimilar to the documented diagram over all word sequences of length <= 12 (thorough: 20) from the initial state (all implementation states and edges covered) and for one step from every reachable state; illegal identifiers are reported at the word in every state class.", "DESIGN.md §2 C09"),
    "C10": (K + "RDH sanity verdict == documented rules for all 2^512 headers (three configurations); running-check verdict == documented automaton for all 3-header histories from an HBF start and one step from an arbitrary checker state (induction over histories).", "DESIGN.md §2 C10"),
    "C11": (K + "All 2^80 values of each status word and all data-word ids x lane masks: the implementation's sanity verdict equals the documented rule. The kernels are decided over their whole input domain; the level stays 'other' because the engine is a bounded model checker, not a proof assistant.", "DESIGN.md §2 C11"),
    "C12": (K + "Chunking of every payload of length <= 64 bytes (arbitrary contents) equals the documented cutting, chunks are the slices at i*slot; over-long padding is reported once, skipped and resets the state. Longer payloads are outside (thorough: 100).", "DESIGN.md §2 C12"),
    "C13": (K + "ALPIDE byte classification for all bytes and one decoder step from an arbitrary decoder state equal a reference that never looks at hit bytes (=> hit-content independence of the decoded chips, flags and counters); lane-count / inner-grouping verdicts. Bunch-counter comparisons (HashMap-based) are outside.", "DESIGN.md §2 C13"),
    "C14": (K + "Per component: the collector's totals are the sums of the messages and the scanner's messages equal the ground truth of the visited packets (one scanner step). Collection inside the analysis thread, the report and the file are outside.", "DESIGN.md §2 C14"),
    "C15": (K + "Drift-detection half only: a collector differing from the reference in any ONE collected statistic (each StatType message, each counted trigger bit, ALPIDE flags) is rejected by validate_other_stats in both directions, identical collectors are accepted. JSON/TOML writing and parsing (the round-trip half) are outside.", "DESIGN.md §2 C15"),
    "C16": (K + "Exit-status table for all (code, flag, configured status); argument validation for all combinations of check kind/target/trigger period/-E; error total == number of collected Error messages. clap, the controller thread and the display filter are outside.", "DESIGN.md §2 C16"),
    "C18": (K + "One packet followed by arbitrary bytes, input cut in each of the four regions (both ends of each, contents symbolic): complete packet unchanged, cut payload => RDH + exactly one [E100], cut RDH => end of input.", "DESIGN.md §2 C18, §7.2(4)"),
    "C19": (K + "Decoding kernels of the views only: word offset formula, word type by identifier (== FSM class on allowed sequences), attribute label functions for all inputs. Rows, layout and styled == unstyled are outside.", "DESIGN.md §2 C19"),
    "C20": (K + "Trigger-period verdict for all bunch crossings and periods incl. wrap-around and its driver ([E45] only between consecutive internal-trigger TDHs); custom count checks [E9001]/[E9002] iff mismatch; configured RDH version. TOML parsing and chip count/order checks are outside.", "DESIGN.md §2 C20"),
}

NA = {
    "C05": "thread schedules: Kani does not execute threads (std::thread::current() crashes kani-compiler); the canonicalising step is a regex-keyed unstable sort, not encodable within reach (DESIGN.md §2 C05)",
    "C06": "compares whole multi-threaded runs (dispatcher spawns per-link threads inside the routing function); not executable symbolically; the filter half is decided under C03/C08 (DESIGN.md §2 C06)",
    "C17": "signals, closed pipes, blocked channels, joins: OS/scheduler level, outside symbolic execution of the code (DESIGN.md §2 C17)",
}
NOT_YET = "check not built yet in this session (planned, see DESIGN.md §2); not claimed until its harnesses pass on the unchanged tree"

def main():
    props = [json.loads(l)["id"] for l in open(os.path.join(ROOT, "properties.jsonl"))]
    checks = []
    na = []
    for p in props:
        if p in CLAIMED:
            text, ref = CLAIMED[p]
            checks.append(dict(property_id=p, quick_cmd="./check %s --tier quick" % p, thorough_cmd="./check %s --tier thorough" % p,
                               evidence_file="evidence/%s.json" % p, replay_cmd_template="./check %s --replay {path}" % p,
                               engine="kani", level_claimed=dict(category="other", text=text, design_ref=ref),
                               level_note=NOTE, technique=TECH))
        else:
            na.append(dict(property_id=p, reason=NA.get(p, NOT_YET)))
    m = dict(version=1, setup_cmd="./check --setup",
             hooks=dict(guard="cfg(kani) — harness modules are attached to a scratch copy of /repo only; no source change in /repo is needed by the machinery",
                        enable="./check copies /repo's working tree to /var/tmp/fpverif.*, appends `#[cfg(kani)] #[path=..] mod ..;` lines there and runs cargo kani",
                        baseline_off_cmd="cd /repo && cargo nextest run --workspace --no-fail-fast --offline || cargo test --workspace --no-fail-fast --offline",
                        source_commits=[], add_only=True),
             engines=[dict(name="kani", path="/root/.kani/kani-0.68.0", serves_properties=sorted(CLAIMED), kind_free_text="Kani 0.68.0 (MIR -> goto-program), CBMC 6.11.0, CaDiCaL; cargo kani playback for native replay")],
             checks=checks, not_applicable=na,
             notes="Exit codes: 0 held; 1 + VIOLATION line (counterexample reproduced natively); 2 + INCONCLUSIVE line (build failure, vacuous harness, resource cap, non-reproducing counterexample) — never reported as held.")
    json.dump(m, open(os.path.join(ROOT, "MANIFEST.json"), "w"), indent=1)
    print("MANIFEST.json: %d checks, %d not_applicable" % (len(checks), len(na)))
main()
