#!/usr/bin/env python3
"""confirm_seed.py <prop> <X> <what-it-needs> -- <demo shell command using {wt} and {out}>
Confirms, in the scratch worktree /tmp/seed/wt_<prop>, that a seeded change
  * applies, compiles, and the whole existing test suite still passes with it,
  * its demonstration passes on the unchanged tree and fails with the change,
then stores it under /verif/seeded/<prop>_<X>/ (patch.diff, demo/, meta.json)."""
import sys, os, subprocess, json, re, shutil
prop, X, needs = sys.argv[1], sys.argv[2], sys.argv[3]
demo = " ".join(sys.argv[sys.argv.index("--") + 1:])
wt = "/tmp/seed/wt_%s" % prop
out = "/tmp/seed/out_%s/%s" % (prop, X)
env = dict(os.environ, CARGO_TARGET_DIR=wt + "/target", CARGO_NET_OFFLINE="true")
def sh(cmd):
    p = subprocess.run(cmd, shell=True, cwd=wt, env=env, stdout=subprocess.PIPE, stderr=subprocess.STDOUT, text=True)
    return p.returncode, p.stdout
def suite():
    rc, o = sh("cargo test --workspace --no-fail-fast --offline -j 8 2>&1")
    passed = sum(int(x) for x in re.findall(r"test result: \w+\. (\d+) passed", o))
    failed = sum(int(x) for x in re.findall(r"test result: \w+\. \d+ passed; (\d+) failed", o))
    return rc, passed, failed, o
democmd = demo.replace("{wt}", wt).replace("{out}", out)
log = {}
assert sh("git status --porcelain --untracked-files=no")[1].strip() == "", "worktree not clean"
rc, o = sh("cargo build --offline -j 8 2>&1 | tail -2"); log["build_clean"] = o[-300:]
rc0, o0 = sh(democmd); log["demo_clean_rc"] = rc0; log["demo_clean_tail"] = o0[-600:]
rc, o = sh("git apply %s/patch.diff" % out); assert rc == 0, "patch does not apply: " + o
try:
    rcs, passed, failed, so = suite(); log["suite_with_change"] = dict(rc=rcs, passed=passed, failed=failed)
    rc, o = sh("cargo build --offline -j 8 2>&1 | tail -2")
    rc1, o1 = sh(democmd); log["demo_changed_rc"] = rc1; log["demo_changed_tail"] = o1[-600:]
finally:
    sh("git apply -R %s/patch.diff" % out)
    sh("git checkout -- . ; git clean -fdq -e target")
ok = rc0 == 0 and rc1 != 0 and failed == 0 and passed >= 323 and rcs == 0
print(json.dumps(log, indent=1)); print("CONFIRMED" if ok else "NOT CONFIRMED")
if ok:
    d = "/verif/seeded/%s_%s" % (prop, X)
    shutil.rmtree(d, ignore_errors=True); os.makedirs(d)
    shutil.copy(out + "/patch.diff", d + "/patch.diff")
    if os.path.isdir(out + "/demo"):
        shutil.copytree(out + "/demo", d + "/demo")
    if os.path.exists(out + "/notes.md"):
        shutil.copy(out + "/notes.md", d + "/notes.md")
    json.dump(dict(property=prop, id="%s_%s" % (prop, X), needs_to_manifest=needs, demo_command=demo,
                   confirmed=dict(existing_suite_with_change=log["suite_with_change"], demo_on_unchanged_tree_rc=rc0, demo_with_change_rc=rc1),
                   base_commit=subprocess.run("git rev-parse HEAD", shell=True, cwd=wt, stdout=subprocess.PIPE, text=True).stdout.strip(),
                   detected_by=None),
              open(d + "/meta.json", "w"), indent=1)
sys.exit(0 if ok else 1)
