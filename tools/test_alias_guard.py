#!/usr/bin/env python3
"""Regression test of vlib.run.alias_guard's matching logic on a saved excerpt of a real goto program in which
Kani 0.68 had materialised RawVec's `Cap::ZERO` as a read from the harness's `static mut N_WRITES: usize = 0`."""
import os, re, sys
root = os.path.dirname(os.path.dirname(os.path.abspath(__file__)))
names = ["N_WRITES"]
pat = re.compile(r"address_of\((_R[A-Za-z0-9_]*?\d+(?:%s))\)" % "|".join(names))
hdr = re.compile(r"^(\S.*) /\* (\S+) \*/$")
cur = cur_m = ""
hits = []
for line in open(os.path.join(root, "tools", "alias_guard_fixture.txt"), errors="replace"):
    if line and not line[0].isspace():
        m = hdr.match(line.rstrip("\n"))
        if m:
            cur, cur_m = m.group(1), m.group(2)
        continue
    m = pat.search(line)
    if m and not ("4vsup" in cur_m or "verif_" in cur_m):
        hits.append((cur, m.group(1)))
print(hits)
sys.exit(0 if hits and hits[0][0].startswith("alloc::raw_vec::RawVecInner::new_in") else 1)
