// Reference predicates for ITS payload words, written from doc/checks_list.md, README.md and the
// ITS word layouts ONLY (no call into the code under test). A word is the 10 bytes in memory
// order: w[0] = bits 7:0 ... w[9] = bits 79:72 (the identifier).
// `include!`d by harnesses (under Kani) and by tools/refcheck (natively, on tests/test-data).

pub const ID_IHW: u8 = 0xE0;
pub const ID_TDH: u8 = 0xE8;
pub const ID_TDT: u8 = 0xF0;
pub const ID_DDW0: u8 = 0xE4;
pub const ID_CDW: u8 = 0xF8;

/// IHW: [79:72]=0xE0, [71:28] reserved = 0, [27:0] active lanes
pub fn ref_ihw_sane(w: &[u8; 10]) -> bool {
    w[9] == ID_IHW && w[8] == 0 && w[7] == 0 && w[6] == 0 && w[5] == 0 && w[4] == 0 && (w[3] & 0xF0) == 0
}
pub fn ref_ihw_active_lanes(w: &[u8; 10]) -> u32 {
    (w[0] as u32) | (w[1] as u32) << 8 | (w[2] as u32) << 16 | ((w[3] & 0x0F) as u32) << 24
}

/// TDH: [79:72]=0xE8, [71:64] reserved, [63:32] orbit, [31:28] reserved, [27:16] bc,
/// [15] reserved, [14] continuation, [13] no_data, [12] internal_trigger, [11:0] trigger_type
pub fn ref_tdh_sane(w: &[u8; 10]) -> bool {
    let trig = (w[0] as u16) | ((w[1] & 0x0F) as u16) << 8;
    let internal = (w[1] >> 4) & 1;
    w[9] == ID_TDH
        && w[8] == 0
        && (w[3] & 0xF0) == 0
        && (w[1] & 0x80) == 0
        && !(trig == 0 && internal == 0)
}
pub fn ref_tdh_trigger_type(w: &[u8; 10]) -> u16 {
    (w[0] as u16) | ((w[1] & 0x0F) as u16) << 8
}
pub fn ref_tdh_internal(w: &[u8; 10]) -> bool {
    (w[1] >> 4) & 1 == 1
}
pub fn ref_tdh_no_data(w: &[u8; 10]) -> bool {
    (w[1] >> 5) & 1 == 1
}
pub fn ref_tdh_continuation(w: &[u8; 10]) -> bool {
    (w[1] >> 6) & 1 == 1
}
pub fn ref_tdh_bc(w: &[u8; 10]) -> u16 {
    (w[2] as u16) | ((w[3] & 0x0F) as u16) << 8
}
pub fn ref_tdh_orbit(w: &[u8; 10]) -> u32 {
    u32::from_le_bytes([w[4], w[5], w[6], w[7]])
}

/// TDT: [79:72]=0xF0, [71:68] reserved, [67] lane_starts_violation, [66] reserved,
/// [65] transmission_timeout, [64] packet_done, [63] timeout_to_start, [62] timeout_start_stop,
/// [61] timeout_in_idle, [60:56] reserved, [55:0] lane_status
pub fn ref_tdt_sane(w: &[u8; 10]) -> bool {
    w[9] == ID_TDT && (w[8] & 0xF0) == 0 && (w[8] & 0x04) == 0 && (w[7] & 0x1F) == 0
}
pub fn ref_tdt_packet_done(w: &[u8; 10]) -> bool {
    w[8] & 1 == 1
}

/// DDW0: [79:72]=0xE4, [71:68] index (must be 0), [67] lane_starts_violation, [66] reserved,
/// [65] transmission_timeout, [64] reserved, [63:56] reserved, [55:0] lane_status
pub fn ref_ddw0_sane(w: &[u8; 10]) -> bool {
    w[9] == ID_DDW0 && (w[8] & 0xF0) == 0 && (w[8] & 0x05) == 0 && w[7] == 0
}

/// data word identifiers: inner 0x20..=0x28; middle/outer: 0b010_cc_iii with connector cc in 0..=3
/// and input iii in 0..=6
pub fn ref_is_data_id(id: u8) -> bool {
    (0x20..=0x28).contains(&id) || ((id >> 5) == 0b010 && (id & 7) <= 6)
}
pub fn ref_is_ib_class(id: u8) -> bool {
    (id >> 5) == 0b001
}
pub fn ref_is_ob_class(id: u8) -> bool {
    (id >> 5) == 0b010
}
/// lane number of a middle/outer data word id: 7 * connector + input
pub fn ref_ob_lane(id: u8) -> u8 {
    7 * ((id >> 3) & 3) + (id & 7)
}
pub fn ref_lane_active(lane: u8, active: u32) -> bool {
    lane < 32 && (active >> lane) & 1 == 1
}

/// word class by identifier alone (views)
#[derive(Clone, Copy, PartialEq, Eq, Debug)]
pub enum RefClass {
    Ihw,
    Tdh,
    Tdt,
    Ddw0,
    Cdw,
    Data,
    Unknown,
}
pub fn ref_class_by_id(id: u8) -> RefClass {
    match id {
        ID_IHW => RefClass::Ihw,
        ID_TDH => RefClass::Tdh,
        ID_TDT => RefClass::Tdt,
        ID_DDW0 => RefClass::Ddw0,
        ID_CDW => RefClass::Cdw,
        x if ref_is_data_id(x) => RefClass::Data,
        _ => RefClass::Unknown,
    }
}
