// Reference predicates for the RDH (CRU, v6/v7 layout), written from doc/checks_list.md, README.md
// and CHANGELOG v1.21.0 ONLY. A header is its 64 bytes in memory order.
//
// byte layout (little endian):
//   0 header_id | 1 header_size | 2..4 fee_id | 4 priority_bit | 5 system_id | 6..8 reserved0      (RDH0)
//   8..10 offset_to_next | 10..12 memory_size | 12 link_id | 13 packet_counter | 14..16 cru_id[11:0] dw[15:12]
//   16..20 bc[11:0] reserved[31:12] | 20..24 orbit                                                   (RDH1)
//   24 data_format | 25..32 reserved
//   32..36 trigger_type | 36..38 pages_counter | 38 stop_bit | 39 reserved0                          (RDH2)
//   40..48 reserved
//   48..52 detector_field | 52..54 par_bit | 54..56 reserved0                                        (RDH3)
//   56..64 reserved

pub fn r_u16(b: &[u8; 64], i: usize) -> u16 {
    (b[i] as u16) | (b[i + 1] as u16) << 8
}
pub fn r_u32(b: &[u8; 64], i: usize) -> u32 {
    (b[i] as u32) | (b[i + 1] as u32) << 8 | (b[i + 2] as u32) << 16 | (b[i + 3] as u32) << 24
}
pub fn r_header_id(b: &[u8; 64]) -> u8 { b[0] }
pub fn r_fee_id(b: &[u8; 64]) -> u16 { r_u16(b, 2) }
pub fn r_system_id(b: &[u8; 64]) -> u8 { b[5] }
pub fn r_offset_next(b: &[u8; 64]) -> u16 { r_u16(b, 8) }
pub fn r_memory_size(b: &[u8; 64]) -> u16 { r_u16(b, 10) }
pub fn r_link_id(b: &[u8; 64]) -> u8 { b[12] }
pub fn r_packet_counter(b: &[u8; 64]) -> u8 { b[13] }
pub fn r_cru_id(b: &[u8; 64]) -> u16 { r_u16(b, 14) & 0x0FFF }
pub fn r_dw(b: &[u8; 64]) -> u8 { (r_u16(b, 14) >> 12) as u8 }
pub fn r_bc(b: &[u8; 64]) -> u16 { r_u16(b, 16) & 0x0FFF }
pub fn r_orbit(b: &[u8; 64]) -> u32 { r_u32(b, 20) }
pub fn r_data_format(b: &[u8; 64]) -> u8 { b[24] }
pub fn r_trigger_type(b: &[u8; 64]) -> u32 { r_u32(b, 32) }
pub fn r_pages_counter(b: &[u8; 64]) -> u16 { r_u16(b, 36) }
pub fn r_stop_bit(b: &[u8; 64]) -> u8 { b[38] }
pub fn r_detector_field(b: &[u8; 64]) -> u32 { r_u32(b, 48) }

/// checks_list.md "RDH sanity check" (+ ITS system id when `its`); `expect_header_id` = the first
/// Header ID seen on the link (or the user-configured version).
/// Notes: the list prints "bc < 0xdeb"; 0xdeb = 3563 is the last bunch crossing of an orbit and the
/// property's boundary set is 0xdeb/0xdec, so the rule is bc <= 0xdeb. Detector-field reserved bits
/// are 23:12 (CHANGELOG v1.21.0 supersedes the list's "23:4"). Spare trigger bits are 26:15.
pub fn ref_rdh_sane(b: &[u8; 64], expect_header_id: u8, its: bool) -> bool {
    let fee = r_fee_id(b);
    let layer = (fee >> 12) & 0x7;
    let stave = fee & 0x3F;
    let fee_reserved = fee & 0b1000_1100_1100_0000;
    let trig = r_trigger_type(b);
    b[0] == expect_header_id
        && b[1] == 0x40
        && layer <= 6
        && stave <= 47
        && fee_reserved == 0
        && b[4] == 0
        && r_u16(b, 6) == 0
        && (!its || b[5] == 0x20)
        && r_bc(b) <= 0xdeb
        && (r_u32(b, 16) >> 12) == 0
        && b[38] <= 1
        && trig >= 1
        && (trig & 0x07FF_8000) == 0
        && b[39] == 0
        && r_u16(b, 54) == 0
        && (r_detector_field(b) & 0x00FF_F000) == 0
        && r_dw(b) <= 1
        && b[24] <= 2
}

/// checks_list.md "RDH running checks": reference automaton over the headers of one link,
/// started at an HBF start.
#[derive(Clone, Copy)]
pub struct RefRdhRunning {
    pub expect_page: u16,
    pub seen: u32,
    pub have_last: bool,
    pub last_stop: u8,
    pub last_orbit: u32,
    pub last_trigger: u32,
    pub last_fee: u16,
}
impl RefRdhRunning {
    pub fn new() -> Self {
        Self { expect_page: 0, seen: 0, have_last: false, last_stop: 0, last_orbit: 0, last_trigger: 0, last_fee: 0 }
    }
    /// true = this header is reported with the running error
    pub fn step(&mut self, b: &[u8; 64]) -> bool {
        let mut err = false;
        let (stop, page, orbit, trig, fee) = (r_stop_bit(b), r_pages_counter(b), r_orbit(b), r_trigger_type(b), r_fee_id(b));
        match stop {
            0 => {
                if page != self.expect_page { err = true; }
                self.expect_page = self.expect_page.wrapping_add(1);
            }
            1 => {
                if page != self.expect_page { err = true; }
                self.expect_page = 0;
            }
            _ => { err = true; }
        }
        if self.have_last {
            // orbit must change after a stop
            if self.last_stop == 1 && self.last_orbit == orbit { err = true; }
            // same HBF: orbit, trigger, FEE id constant when page != 0 (detector field: warning only)
            if page != 0 && (orbit != self.last_orbit || trig != self.last_trigger || fee != self.last_fee) { err = true; }
        }
        self.have_last = true;
        self.last_stop = stop;
        self.last_orbit = orbit;
        self.last_trigger = trig;
        self.last_fee = fee;
        self.seen += 1;
        err
    }
}
