// Reference transcription of doc/ITS_payload_fsm_continuous_mode.puml (continuous mode).
// Requires oracle/words.rs to be included first.
//
// Reading of the diagram, stated because it matters:
//  * `Data` admits zero or more data words before the TDT; a CDW is a data-position word
//    (checks_list.md: "CDW ..." is listed with the data-position rules).
//  * After DDW0 the diagram ends ([*]); the next word of the link starts a new HBF => IHW.
//  * In single-successor states (IHW, TDH, c_IHW, c_TDH) the word IS the prescribed type whatever
//    its identifier (a wrong identifier is that type's sanity error); in choice states a word
//    whose identifier is none of the legal ones is illegal (unrecognised-ID error) and the
//    diagram prescribes nothing after it.

#[derive(Clone, Copy, PartialEq, Eq, Debug)]
pub enum MState {
    Ihw,          // expect IHW (start of HBF / after DDW0)
    Tdh,          // expect TDH (after IHW)
    AfterTdhNoData, // choice: TDH | DDW0 | IHW
    Data,         // choice: data word | CDW | TDT
    AfterTdtDone, // choice: TDH | DDW0 | IHW
    CIhw,         // continuation: expect IHW
    CTdh,         // continuation: expect TDH (continuation)
    CData,        // continuation: data word | CDW | TDT
}

#[derive(Clone, Copy, PartialEq, Eq, Debug)]
pub enum MKind {
    Ihw,
    IhwCont,
    Tdh,
    TdhCont,
    TdhAfterChoice, // TDH taken in a choice state (after TDT packet_done=1 or after a no-data TDH)
    Tdt,
    Ddw0,
    Cdw,
    Data,
    Illegal,
}

/// (kind of this word, next state). For `Illegal` the next state is meaningless.
pub fn ref_fsm_step(s: MState, w: &[u8; 10]) -> (MKind, MState) {
    let id = w[9];
    match s {
        MState::Ihw => (MKind::Ihw, MState::Tdh),
        MState::Tdh => (MKind::Tdh, if ref_tdh_no_data(w) { MState::AfterTdhNoData } else { MState::Data }),
        MState::CIhw => (MKind::IhwCont, MState::CTdh),
        MState::CTdh => (MKind::TdhCont, MState::CData),
        MState::AfterTdhNoData | MState::AfterTdtDone => {
            if id == ID_TDH {
                (MKind::TdhAfterChoice, if ref_tdh_no_data(w) { MState::AfterTdhNoData } else { MState::Data })
            } else if id == ID_IHW {
                (MKind::Ihw, MState::Tdh)
            } else if id == ID_DDW0 {
                (MKind::Ddw0, MState::Ihw)
            } else {
                (MKind::Illegal, s)
            }
        }
        MState::Data | MState::CData => {
            if ref_is_data_id(id) {
                (MKind::Data, s)
            } else if id == ID_CDW {
                (MKind::Cdw, s)
            } else if id == ID_TDT {
                (MKind::Tdt, if ref_tdt_packet_done(w) { MState::AfterTdtDone } else { MState::CIhw })
            } else {
                (MKind::Illegal, s)
            }
        }
    }
}

pub fn ref_is_single_successor(s: MState) -> bool {
    matches!(s, MState::Ihw | MState::Tdh | MState::CIhw | MState::CTdh)
}
