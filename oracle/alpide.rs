// Reference ALPIDE lane-stream decoder, written from the ALPIDE data format (chip header 1010<id>,
// chip empty frame 1110<id>, chip trailer 1011<flags>, region header 110<r>, DATA SHORT 01.. (2 bytes),
// DATA LONG 00.. (3 bytes), BUSY ON/OFF 0xF1/0xF0, IDLE/padding, ITS "APE" protocol extension
// bytes 0xF2..0xFE) and doc/checks_list.md. It never looks at hit bytes: they are skipped by count.

#[derive(Clone, Copy, PartialEq, Eq, Debug)]
pub enum AKind {
    DataShort,
    DataLong,
    RegionHeader,
    ChipHeader,
    ChipEmpty,
    ChipTrailer,
    Busy,
    ApeWarning,
    ApeFatal,
    Unknown,
}
pub fn ref_alpide_kind(b: u8) -> AKind {
    if b >> 6 == 0b01 {
        AKind::DataShort
    } else if b >> 6 == 0b00 {
        AKind::DataLong
    } else if b >> 5 == 0b110 {
        AKind::RegionHeader
    } else if b >> 4 == 0b1010 {
        AKind::ChipHeader
    } else if b >> 4 == 0b1110 {
        AKind::ChipEmpty
    } else if b >> 4 == 0b1011 {
        AKind::ChipTrailer
    } else if b == 0xF0 || b == 0xF1 {
        AKind::Busy
    } else if b == 0xF2 || b == 0xFD || b == 0xFE {
        AKind::ApeWarning // STRIP_START, PE_DATA_MISSING, OOT_DATA_MISSING: lane status WARNING
    } else if b >= 0xF4 && b <= 0xFC {
        AKind::ApeFatal // DET_TIMEOUT .. RATE_MISSING_TRG_ERROR: lane status FATAL
    } else {
        AKind::Unknown // 0xF3, 0xFF (IDLE/COMMA)
    }
}

#[derive(Clone, Copy, PartialEq, Eq, Debug)]
pub struct RefChip {
    pub id: u8,
    pub bc: u8,
}

#[derive(Clone, Copy)]
pub struct RefLaneDecoder {
    pub in_chip: bool,
    pub skip: u8,
    pub expect_bc: bool,
    pub last_chip: u8,
    pub fatal: bool,
    pub error: bool, // a chip id announced twice in one lane frame
    pub chips: [RefChip; 8],
    pub nchips: usize,
    pub trailers: u32,
    pub busy_violations: u32,
    pub data_overrun: u32,
    pub transmission_in_fatal: u32,
    pub flushed_incomplete: u32,
    pub strobe_extended: u32,
    pub busy_transitions: u32,
}
impl RefLaneDecoder {
    pub fn new() -> Self {
        Self {
            in_chip: false, skip: 0, expect_bc: false, last_chip: 0, fatal: false, error: false,
            chips: [RefChip { id: 0, bc: 0 }; 8], nchips: 0, trailers: 0, busy_violations: 0,
            data_overrun: 0, transmission_in_fatal: 0, flushed_incomplete: 0, strobe_extended: 0,
            busy_transitions: 0,
        }
    }
    /// false = the byte is not legal ALPIDE output in this decoder state (hit data or a region
    /// header outside a chip frame): the reference prescribes nothing for such streams.
    pub fn legal(&self, b: u8) -> bool {
        if self.skip > 0 || self.expect_bc {
            return true;
        }
        if !self.in_chip && b == 0 {
            return true;
        }
        match ref_alpide_kind(b) {
            AKind::DataShort | AKind::DataLong | AKind::RegionHeader => self.in_chip,
            _ => true,
        }
    }
    pub fn step(&mut self, b: u8) {
        if self.skip > 0 {
            self.skip -= 1;
            return;
        }
        if self.expect_bc {
            self.expect_bc = false;
            let mut found = false;
            let mut i = 0;
            while i < 8 {
                if i < self.nchips && self.chips[i].id == self.last_chip {
                    found = true;
                }
                i += 1;
            }
            if found {
                self.error = true;
            } else if self.nchips < 8 {
                self.chips[self.nchips] = RefChip { id: self.last_chip, bc: b };
                self.nchips += 1;
            }
            return;
        }
        if !self.in_chip && b == 0 {
            return; // idle / padding between chip frames
        }
        match ref_alpide_kind(b) {
            AKind::DataShort => self.skip = 1,
            AKind::DataLong => self.skip = 2,
            AKind::RegionHeader => {}
            AKind::ChipHeader => {
                self.in_chip = true;
                self.last_chip = b & 0xF;
                self.expect_bc = true;
            }
            AKind::ChipEmpty => {
                self.in_chip = false;
                self.last_chip = b & 0xF;
                self.expect_bc = true;
            }
            AKind::ChipTrailer => {
                self.in_chip = false;
                self.trailers += 1;
                // readout flags: 1000 busy violation, 1100 data overrun, 1110 transmission in fatal,
                // otherwise bit2 flushed incomplete, bit1 strobe extended, bit0 busy transition
                match b & 0xF {
                    0b1000 => self.busy_violations += 1,
                    0b1100 => self.data_overrun += 1,
                    0b1110 => self.transmission_in_fatal += 1,
                    f => {
                        self.flushed_incomplete += ((f >> 2) & 1) as u32;
                        self.strobe_extended += ((f >> 1) & 1) as u32;
                        self.busy_transitions += (f & 1) as u32;
                    }
                }
            }
            AKind::Busy | AKind::ApeWarning | AKind::Unknown => {}
            AKind::ApeFatal => self.fatal = true,
        }
    }
}
