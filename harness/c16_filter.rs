//@ attach: fastpasta/src/stats/err_printer.rs
//@ mod: verif_c16f
// C16 (iii) — filtering by error code shows exactly the messages whose code EQUALS a listed one
// (a listed code that is a prefix of the message's code, or vice versa, must not match).
#![allow(unused_imports, dead_code, clippy::all)]
use super::*;

fn digit() -> u8 {
    let d: u8 = kani::any();
    kani::assume(d >= b'0' && d <= b'9');
    d
}

fn code_filter<const M: usize, const F: usize>() {
    let mut md = [0u8; M];
    let mut fd = [0u8; F];
    let mut i = 0;
    while i < M {
        md[i] = digit();
        i += 1;
    }
    let mut i = 0;
    while i < F {
        fd[i] = digit();
        i += 1;
    }
    let mut msg = String::from("0x10: [E");
    let mut i = 0;
    while i < M {
        msg.push(md[i] as char);
        i += 1;
    }
    msg.push_str("] x");
    let mut f = String::new();
    let mut i = 0;
    while i < F {
        f.push(fd[i] as char);
        i += 1;
    }
    let msgs: [Box<str>; 1] = [msg.into()];
    let filt = [f];
    let p = ErrPrinter::new(None, Some(&filt[..]));
    let n = p.filter_error_msgs(None, &filt[..], msgs.iter()).count();
    let mut equal = M == F;
    let mut i = 0;
    while i < M && i < F {
        equal &= md[i] == fd[i];
        i += 1;
    }
    assert!((n == 1) == equal, "a message is shown iff its error code EQUALS a listed code");
    kani::cover!(n == 1 || M != F, "shown");
    kani::cover!(n == 0, "hidden");
    core::mem::forget((msgs, filt));
}

macro_rules! F {
    ($name:ident, $m:literal, $f:literal) => {
        #[kani::proof]
        #[kani::unwind(24)]
        #[kani::stub(alloc::fmt::format, crate::vsup::stub_format)]
        fn $name() {
            code_filter::<$m, $f>();
        }
    };
}

//@ harness: c16_filter_2_2 props=C16 tier=thorough required=no class=functional covers=2 mem=16 timeout=900 est=600
//@ bounds: message "0x10: [Edd] x" with arbitrary 2 digits, one listed code of arbitrary 2 digits: shown iff equal
F!(c16_filter_2_2, 2, 2);
//@ harness: c16_filter_3_2 props=C16 tier=thorough required=no class=functional covers=2 mem=16 timeout=900 est=600
//@ bounds: 3-digit message code, listed 2-digit code (possibly a prefix of it): never shown
F!(c16_filter_3_2, 3, 2);
