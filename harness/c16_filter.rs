//@ attach: fastpasta/src/stats/err_printer.rs
//@ mod: verif_c16f
// C16 (iii) — filtering by error code shows exactly the messages whose code EQUALS a listed one
// (a listed code that is a prefix of the message's code, or vice versa, must not match).
#![allow(unused_imports, dead_code, clippy::all)]
use super::*;

fn digit() -> u8 {
    let d: u8 = kani::any();
    kani::assume(d >= b'0' && d <= b'9');
    d
}

fn code_filter<const M: usize, const F: usize>() {
    let mut md = [0u8; M];
    let mut fd = [0u8; F];
    let mut i = 0;
    while i < M {
        md[i] = digit();
        i += 1;
    }
    let mut i = 0;
    while i < F {
        fd[i] = digit();
        i += 1;
    }
    let mut msg = String::from("0x10: [E");
    let mut i = 0;
    while i < M {
        msg.push(md[i] as char);
        i += 1;
    }
    msg.push_str("] x");
    let mut f = String::new();
    let mut i = 0;
    while i < F {
        f.push(fd[i] as char);
        i += 1;
    }
    let msgs: [Box<str>; 1] = [msg.into()];
    let filt = [f];
    let p = ErrPrinter::new(None, Some(&filt[..]));
    let n = p.filter_error_msgs(None, &filt[..], msgs.iter()).count();
    let mut equal = M == F;
    let mut i = 0;
    while i < M && i < F {
        equal &= md[i] == fd[i];
        i += 1;
    }
    assert!((n == 1) == equal, "a message is shown iff its error code EQUALS a listed code");
    kani::cover!(n == 1 || M != F, "shown");
    kani::cover!(n == 0, "hidden");
    core::mem::forget((msgs, filt));
}

macro_rules! F {
    ($name:ident, $m:literal, $f:literal) => {
        #[kani::proof]
        #[kani::unwind(24)]
        #[kani::stub(alloc::fmt::format, crate::vsup::stub_format)]
        fn $name() {
            code_filter::<$m, $f>();
        }
    };
}

//@ harness: c16_filter_2_2 props=C16 tier=thorough required=no class=functional covers=2 mem=16 timeout=900 est=600
//@ bounds: message "0x10: [Edd] x" with arbitrary 2 digits, one listed code of arbitrary 2 digits: shown iff equal
F!(c16_filter_2_2, 2, 2);
//@ harness: c16_filter_3_2 props=C16 tier=thorough required=no class=functional covers=2 mem=16 timeout=900 est=600
//@ bounds: 3-digit message code, listed 2-digit code (possibly a prefix of it): never shown
F!(c16_filter_3_2, 3, 2);

// ---- unit level: match_error_code on stack strings (no heap, no iterator adaptors over Vec<String>) ----
fn code_match<const M: usize, const F: usize>() {
    let mut mb = [b' '; 16];
    mb[0] = b'0';
    mb[1] = b'x';
    mb[2] = b'1';
    mb[3] = b':';
    mb[4] = b' ';
    mb[5] = b'[';
    mb[6] = b'E';
    let mut md = [0u8; M];
    let mut fd = [0u8; F];
    let mut i = 0;
    while i < M {
        md[i] = digit();
        mb[7 + i] = md[i];
        i += 1;
    }
    mb[7 + M] = b']';
    mb[8 + M] = b' ';
    mb[9 + M] = b'x';
    let mut i = 0;
    while i < F {
        fd[i] = digit();
        i += 1;
    }
    let msg = unsafe { core::str::from_utf8_unchecked(&mb[..10 + M]) };
    let fstr = unsafe { core::str::from_utf8_unchecked(&fd[..]) };
    let mut mc = msg.chars();
    let pos = mc.position(|c| c == '[');
    assert!(pos == Some(5));
    let r = match_error_code(msg, fstr.chars(), mc, 5);
    let mut equal = M == F;
    let mut i = 0;
    while i < M && i < F {
        equal &= md[i] == fd[i];
        i += 1;
    }
    assert!(r == equal, "match_error_code is true iff the message's error code EQUALS the listed code");
    kani::cover!(r || M != F, "match");
    kani::cover!(!r, "no match");
}

macro_rules! M {
    ($name:ident, $m:literal, $f:literal) => {
        #[kani::proof]
        #[kani::unwind(14)]
        fn $name() {
            code_match::<$m, $f>();
        }
    };
}

//@ harness: c16_match_2_2 props=C16 tier=quick class=functional covers=2 mem=16 timeout=1500 est=300
//@ bounds: match_error_code on "0x1: [Edd] x" (arbitrary 2 digits) vs a listed code of arbitrary 2 digits: true iff equal
M!(c16_match_2_2, 2, 2);
//@ harness: c16_match_3_2 props=C16 tier=quick class=functional covers=2 mem=16 timeout=1500 est=300
//@ bounds: 3-digit message code vs listed 2-digit code (possibly its prefix): never matches
M!(c16_match_3_2, 3, 2);
//@ harness: c16_match_2_3 props=C16 tier=quick class=functional covers=2 mem=16 timeout=1500 est=300
//@ bounds: 2-digit message code vs listed 3-digit code (the message code possibly its prefix): never matches
M!(c16_match_2_3, 2, 3);
//@ harness: c16_match_4_4 props=C16 tier=thorough class=functional covers=2 mem=16 timeout=1500 est=300
//@ bounds: 4-digit codes ([E9001]-style): true iff equal
M!(c16_match_4_4, 4, 4);
//@ harness: c16_match_3_3 props=C16 tier=thorough class=functional covers=2 mem=16 timeout=1500 est=300
//@ bounds: 3-digit codes: true iff equal
M!(c16_match_3_3, 3, 3);
