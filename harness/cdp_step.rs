//@ attach: fastpasta/src/analyze/validators/its/cdp_running.rs
//@ mod: verif_step
// C01 K4 / C02 / C07 K3 / C09 K2 / C12 / C20 — one inductive step of the composed ITS payload
// validator: concrete word prefix to reach an FSM state, remembered words / current RDH / packet
// offset symbolic, ONE symbolic word, assertion on what is reported (code family, offset, bytes).
#![allow(unused_imports, dead_code, clippy::all, non_snake_case)]
use super::*;
use crate::vsup::{Obs, VCfg};
use alice_protocol_reader::prelude::{RdhCru, SerdeRdh, RDH};

include!(concat!(env!("VERIF_ROOT"), "/oracle/words.rs"));
include!(concat!(env!("VERIF_ROOT"), "/oracle/rdh.rs"));

type V = CdpRunningValidator<RdhCru, VCfg>;

// ---- concrete conforming material ----------------------------------------------------------
const ORBIT: u32 = 0x0012_3456;
const BC: u16 = 0x123;
const TRIG: u32 = 0x0000_6A13; // ORBIT|HB|PhT|SOC|TF|RT|RS ; low 12 bits 0xA13
const FEE: u16 = 0x1005; // layer 1 stave 5 (inner barrel)

/// a sane ITS RDH (v7) with the given stop bit / page counter / data format
fn rdh_bytes(stop: u8, page: u16, df: u8) -> [u8; 64] {
    let mut b = [0u8; 64];
    b[0] = 7;
    b[1] = 0x40;
    b[2] = FEE as u8;
    b[3] = (FEE >> 8) as u8;
    b[5] = 0x20;
    b[8] = 0xE0; b[9] = 0x13; b[10] = 0xE0; b[11] = 0x13; // 5088
    b[12] = 3;
    b[16] = BC as u8; b[17] = (BC >> 8) as u8;
    b[20] = ORBIT as u8; b[21] = (ORBIT >> 8) as u8; b[22] = (ORBIT >> 16) as u8; b[23] = (ORBIT >> 24) as u8;
    b[24] = df;
    b[32] = TRIG as u8; b[33] = (TRIG >> 8) as u8; b[34] = (TRIG >> 16) as u8; b[35] = (TRIG >> 24) as u8;
    b[36] = page as u8; b[37] = (page >> 8) as u8;
    b[38] = stop;
    b
}
const W_IHW: [u8; 10] = [0xFF, 0x3F, 0, 0, 0, 0, 0, 0, 0, 0xE0]; // lanes 0..13 active
fn w_tdh(no_data: bool, cont: bool, internal: bool, bc: u16) -> [u8; 10] {
    let tt: u16 = (TRIG & 0xFFF) as u16;
    let b1 = ((tt >> 8) as u8 & 0x0F) | ((internal as u8) << 4) | ((no_data as u8) << 5) | ((cont as u8) << 6);
    [tt as u8, b1, bc as u8, (bc >> 8) as u8 & 0x0F, ORBIT as u8, (ORBIT >> 8) as u8, (ORBIT >> 16) as u8, (ORBIT >> 24) as u8, 0, 0xE8]
}
const W_DATA_IB: [u8; 10] = [0xA5, 0x12, 0xB0, 0, 0, 0, 0, 0, 0, 0x25]; // inner lane 5 (chip 5 header, bc, trailer)
fn w_tdt(done: bool) -> [u8; 10] {
    [0, 0, 0, 0, 0, 0, 0, 0, done as u8, 0xF0]
}
const W_DDW0: [u8; 10] = [0, 0, 0, 0, 0, 0, 0, 0, 0, 0xE4];

// ---- states ---------------------------------------------------------------------------------
#[derive(Clone, Copy, PartialEq, Eq)]
enum St {
    Ihw0,      // initial: expect IHW
    Tdh,       // after IHW
    Data,      // after TDH no_data=0 (no data word seen yet: CDW legal)
    Data2,     // after a data word
    AfterNoData, // after TDH no_data=1
    AfterTdtDone, // after TDT packet_done=1
    CIhw,      // after TDT packet_done=0 (next packet)
    CTdh,      // continuation, after IHW
    CData,     // continuation, after TDH
    IhwAfterDdw0,
}

struct Ctx {
    v: V,
    rx: flume::Receiver<StatType>,
    rdh_pos: u64,
    df: u8,
    /// words checked since set_current_rdh
    n: u64,
}
impl Ctx {
    fn new(cfg: &'static VCfg) -> Self {
        let (tx, rx) = flume::unbounded();
        let mut v = V::new(cfg, tx);
        if cfg.target != 2 {
            // niche-encoded Option: CBMC does not fold the discriminant of a struct returned by value;
            // asserted no-op re-assignment (DESIGN 1.6)
            assert!(v.readout_frame_validator.is_none());
            v.readout_frame_validator = None;
        }
        Ctx { v, rx, rdh_pos: 0, df: 2, n: 0 }
    }
    fn set_rdh(&mut self, b: &[u8; 64], pos: u64) {
        let rdh = RdhCru::from_buf(b).unwrap();
        self.v.set_current_rdh(&rdh, pos);
        self.rdh_pos = pos;
        self.df = b[24];
        self.n = 0;
    }
    fn feed(&mut self, w: &[u8; 10]) {
        self.v.check(w);
        self.n += 1;
    }
    /// offset the NEXT word's reports must carry
    fn next_word_pos(&self) -> u64 {
        let slot: u64 = if self.df == 0 { 16 } else { 10 };
        self.rdh_pos + 64 + self.n * slot
    }
    /// Reach `st` by a concrete conforming prefix. The RDH in force afterwards is `rdh_now`
    /// (its stop/page/orbit/... may be symbolic), located at `pos`.
    fn reach(&mut self, st: St, rdh_now: &[u8; 64], pos: u64) {
        let first = rdh_bytes(0, 0, rdh_now[24]);
        match st {
            St::Ihw0 => self.set_rdh(rdh_now, pos),
            St::Tdh => {
                self.set_rdh(rdh_now, pos);
                self.feed(&W_IHW);
            }
            St::Data => {
                self.set_rdh(rdh_now, pos);
                self.feed(&W_IHW);
                self.feed(&w_tdh(false, false, true, r_bc(rdh_now)));
            }
            St::Data2 => {
                self.set_rdh(rdh_now, pos);
                self.feed(&W_IHW);
                self.feed(&w_tdh(false, false, true, r_bc(rdh_now)));
                self.feed(&W_DATA_IB);
            }
            St::AfterNoData => {
                self.set_rdh(rdh_now, pos);
                self.feed(&W_IHW);
                self.feed(&w_tdh(true, false, true, r_bc(rdh_now)));
            }
            St::AfterTdtDone => {
                self.set_rdh(rdh_now, pos);
                self.feed(&W_IHW);
                self.feed(&w_tdh(false, false, true, r_bc(rdh_now)));
                self.feed(&W_DATA_IB);
                self.feed(&w_tdt(true));
            }
            St::CIhw | St::CTdh | St::CData => {
                self.set_rdh(&first, 0x1000);
                self.feed(&W_IHW);
                self.feed(&w_tdh(false, false, true, BC));
                self.feed(&W_DATA_IB);
                self.feed(&w_tdt(false));
                self.set_rdh(rdh_now, pos);
                if st != St::CIhw {
                    self.feed(&W_IHW);
                }
                if st == St::CData {
                    self.feed(&w_tdh(false, true, true, BC));
                }
            }
            St::IhwAfterDdw0 => {
                self.set_rdh(&rdh_bytes(1, 1, rdh_now[24]), 0x1000);
                self.feed(&W_IHW);
                self.feed(&w_tdh(true, false, true, BC));
                self.feed(&W_DDW0);
                self.set_rdh(rdh_now, pos);
            }
        }
        crate::vsup::reset();
        #[cfg(feature = "verif_native")]
        {
            let _ = crate::vsup::observe(&self.rx);
        }
    }
    fn obs(&self) -> Obs {
        crate::vsup::observe(&self.rx)
    }
}

fn any_pos() -> u64 {
    let p: u64 = kani::any();
    kani::assume(p < (1u64 << 40));
    p
}
/// the current RDH: sane ITS header whose stop bit, page counter, orbit, BC, trigger type and data
/// format are symbolic (format in {0, 2})
fn any_rdh() -> [u8; 64] {
    let mut b = rdh_bytes(0, 0, 2);
    let df: u8 = kani::any();
    kani::assume(df == 0 || df == 2);
    b[24] = df;
    let stop: u8 = kani::any();
    kani::assume(stop <= 1);
    b[38] = stop;
    let page: u16 = kani::any();
    b[36] = page as u8; b[37] = (page >> 8) as u8;
    let orbit: u32 = kani::any();
    b[20] = orbit as u8; b[21] = (orbit >> 8) as u8; b[22] = (orbit >> 16) as u8; b[23] = (orbit >> 24) as u8;
    let bc: u16 = kani::any();
    kani::assume(bc <= 0xdeb);
    b[16] = bc as u8; b[17] = (bc >> 8) as u8;
    let trig: u32 = kani::any();
    kani::assume(trig != 0 && trig & 0x07FF_8000 == 0);
    b[32] = trig as u8; b[33] = (trig >> 8) as u8; b[34] = (trig >> 16) as u8; b[35] = (trig >> 24) as u8;
    b
}

/// every report of this step carries the word's offset and quotes exactly its bytes (C07)
fn truthful(o: &Obs, pos: u64, w: &[u8; 10]) -> bool {
    o.all_at(pos) && o.all_quote(w)
}

fn cfg_of(mode: u8) -> &'static VCfg {
    match mode {
        1 => &crate::vsup::VCFG_SANITY_ITS,
        _ => &crate::vsup::VCFG_ALL_ITS,
    }
}

// =============================================================================================
// IHW position (initial state / after DDW0 / continuation)
// =============================================================================================
fn step_ihw(st: St, mode: u8) {
    let mut c = Ctx::new(cfg_of(mode));
    let rdh = any_rdh();
    let pos = any_pos();
    c.reach(st, &rdh, pos);
    // the remembered words of a link are ARBITRARY at this point of an arbitrary stream (an insane
    // word is remembered too): the verdict on the new word must not depend on them
    let prev_ihw: [u8; 10] = kani::any();
    c.v.status_words.replace_ihw(Ihw::from_buf(&prev_ihw).unwrap());
    let w: [u8; 10] = kani::any();
    let wpos = c.next_word_pos();
    c.feed(&w);
    let o = c.obs();
    let sane = ref_ihw_sane(&w);
    let stop_rule_applies = mode == 2 && st != St::CIhw;
    let stop_ok = r_stop_bit(&rdh) == 0;
    assert!(truthful(&o, wpos, &w), "report with a wrong offset or wrong quoted bytes");
    // C01: conforming word => silence
    if sane && (!stop_rule_applies || stop_ok) {
        assert!(o.n_err == 0, "conforming IHW reported");
    }
    // C02/C09: each broken rule is reported with its family at the word
    if !sane {
        assert!(o.any_at(b"[E30]", wpos), "insane IHW (wrong ID or reserved bits) not reported as [E30] at the word");
    }
    if stop_rule_applies && !stop_ok {
        assert!(o.any_at(b"[E12]", wpos), "IHW while RDH stop bit is 1 not reported as [E12]");
    }
    if !stop_rule_applies && sane {
        assert!(o.n_err == 0, "running rule reported although it is not active here");
    }
    kani::cover!(o.n_err == 0, "silent");
    kani::cover!(!sane && w[9] != ID_IHW, "wrong id");
    kani::cover!(!sane && w[9] == ID_IHW, "reserved bits");
    kani::cover!(o.n_err == 2 || !stop_rule_applies, "two reports (where the stop-bit rule is active)");
    core::mem::forget(c);
}

macro_rules! H {
    ($name:ident, $body:expr) => {
        #[kani::proof]
        #[kani::unwind(4)]
        #[kani::stub(alloc::fmt::format, crate::vsup::stub_format)]
        #[kani::stub(core::fmt::write, crate::vsup::stub_write)]
        #[kani::stub(flume::Sender::send, crate::vsup::stub_send)]
        #[kani::stub(crate::analyze::validators::its::util::report_error, crate::vsup::stub_report_error_fp)]
        fn $name() {
            $body
        }
    };
}

//@ harness: step_ihw0_all props=C01,C02,C07,C09 tier=quick class=functional covers=4 mem=10 timeout=900 est=60
//@ bounds: state initial-IHW, check all its: arbitrary 80-bit word x arbitrary remembered IHW x current RDH (stop, page, orbit, BC, trigger, data format symbolic) x packet offset < 2^40
H!(step_ihw0_all, step_ihw(St::Ihw0, 2));
//@ harness: step_ihw0_sanity props=C01,C02,C09 also=C07 tier=quick class=functional covers=3 mem=10 timeout=900 est=60
//@ bounds: state initial-IHW, check sanity its: same inputs; the stop-bit running rule must NOT be reported
H!(step_ihw0_sanity, step_ihw(St::Ihw0, 1));
//@ harness: step_cihw_all props=C01,C02,C09 also=C07 tier=quick class=functional covers=3 mem=10 timeout=900 est=60
//@ bounds: state continuation-IHW (after TDT packet_done=0, next packet), check all its
H!(step_cihw_all, step_ihw(St::CIhw, 2));
//@ harness: step_ihw_after_ddw0_all props=C01,C02 also=C07,C09 tier=thorough class=functional covers=4 mem=10 timeout=900 est=60
//@ bounds: state IHW after DDW0 (next HBF), check all its
H!(step_ihw_after_ddw0_all, step_ihw(St::IhwAfterDdw0, 2));

// =============================================================================================
// Word builders: the fields a harness keeps symbolic are passed in; everything else is concrete
// and conforming, so that the branches of the rules not under test fold during symbolic execution
// (several conditional Vec<String>::push on symbolic conditions exhaust memory, DESIGN 1.6).
// =============================================================================================
struct TdhF {
    id: u8,
    res0: u8,      // bits 71:64
    orbit: u32,
    res1: u8,      // bits 31:28
    bc: u16,       // 12 bits
    res2: bool,    // bit 15
    cont: bool,
    no_data: bool,
    internal: bool,
    tt: u16,       // 12 bits
}
fn tdh_conf() -> TdhF {
    TdhF { id: ID_TDH, res0: 0, orbit: ORBIT, res1: 0, bc: BC, res2: false, cont: false, no_data: false, internal: true, tt: (TRIG & 0xFFF) as u16 }
}
fn tdh_w(f: &TdhF) -> [u8; 10] {
    let b1 = ((f.tt >> 8) as u8 & 0x0F) | ((f.internal as u8) << 4) | ((f.no_data as u8) << 5) | ((f.cont as u8) << 6) | ((f.res2 as u8) << 7);
    [f.tt as u8, b1, f.bc as u8, ((f.bc >> 8) as u8 & 0x0F) | (f.res1 << 4), f.orbit as u8, (f.orbit >> 8) as u8, (f.orbit >> 16) as u8, (f.orbit >> 24) as u8, f.res0, f.id]
}
fn any_u12() -> u16 {
    let x: u16 = kani::any();
    kani::assume(x < 0x1000);
    x
}
fn any_u4() -> u8 {
    let x: u8 = kani::any();
    kani::assume(x < 16);
    x
}
fn conc_rdh(stop: u8, page: u16) -> [u8; 64] {
    let mut b = rdh_bytes(stop, page, 2);
    let df: u8 = kani::any(); // the slot size only enters the offset arithmetic
    kani::assume(df == 0 || df == 2);
    b[24] = df;
    b
}

// =============================================================================================
// TDH after IHW (state TDH_): which rule is exercised
//   0 sanity: id, reserved bits, trigger rule symbolic; running-rule fields concrete & conforming
//   1 [E42] continuation   2 [E444] orbit   3 [E445] bc   4 [E44] trigger type
// =============================================================================================
fn step_tdh(mode: u8, which: u8) {
    let mut c = Ctx::new(cfg_of(mode));
    // page 0 + internal trigger: the bc / trigger-type rules apply; page 1 for the sanity instance
    // so that they do not (their inputs are symbolic there)
    let rdh = conc_rdh(0, if which == 0 { 1 } else { 0 });
    let pos = any_pos();
    c.reach(St::Tdh, &rdh, pos);
    if which == 0 {
        // arbitrary remembered TDH (no rule of this state reads it): the verdict must not depend on it
        let prev: [u8; 10] = kani::any();
        c.v.status_words.replace_tdh(Tdh::from_buf(&prev).unwrap());
    }
    let mut f = tdh_conf();
    match which {
        0 => {
            f.id = kani::any();
            f.res0 = kani::any();
            f.res1 = any_u4();
            f.res2 = kani::any();
            f.tt = any_u12();
            f.internal = kani::any();
            f.no_data = kani::any();
            f.bc = any_u12();
        }
        1 => f.cont = true,
        2 => {
            f.orbit = kani::any();
            kani::assume(f.orbit != ORBIT);
        }
        3 => {
            f.bc = any_u12();
            kani::assume(f.bc != BC);
        }
        _ => {
            f.tt = any_u12();
            kani::assume(f.tt != (TRIG & 0xFFF) as u16);
        }
    }
    let w = tdh_w(&f);
    let sane = ref_tdh_sane(&w);
    let wpos = c.next_word_pos();
    c.feed(&w);
    let o = c.obs();
    assert!(truthful(&o, wpos, &w), "report with a wrong offset or wrong quoted bytes");
    if which == 0 {
        assert!((o.n_err == 0) == sane, "TDH after IHW: reported iff insane (running rules conform)");
        if !sane {
            assert!(o.any_at(b"[E40]", wpos), "insane TDH (ID, reserved bits, trigger rule) not reported as [E40] at the word");
        }
    } else if mode == 1 {
        assert!(o.n_err == 0, "stateful TDH rule reported by check sanity");
    } else {
        let fam: &[u8] = match which {
            1 => b"[E42]",
            2 => b"[E444]",
            3 => b"[E445]",
            _ => b"[E44]",
        };
        assert!(o.any_at(fam, wpos), "broken TDH-vs-RDH rule not reported with its code at the word");
        assert!(o.n_err == 1, "exactly the broken rule is reported");
    }
    kani::cover!(which != 0 || (sane && f.no_data), "conforming no-data TDH / rule instance reached");
    kani::cover!(which != 0 || (sane && !f.internal), "conforming physics-trigger TDH");
    kani::cover!(which != 0 || (!sane && f.id != ID_TDH), "wrong id");
    kani::cover!(which != 0 || (!sane && f.id == ID_TDH && f.tt != 0), "reserved bits");
    core::mem::forget(c);
}
//@ harness: step_tdh_all_sane props=C01,C02,C09 also=C07 tier=quick class=functional covers=4 mem=10 timeout=900 est=60
//@ bounds: state TDH-after-IHW, check all its: TDH with arbitrary id, reserved bits, trigger type, internal/no_data flags and bc (continuation 0, orbit = RDH orbit; RDH page 1): silent iff sane, else [E40] at the word; offset < 2^40, data format {0,2}
H!(step_tdh_all_sane, step_tdh(2, 0));
//@ harness: step_tdh_sanity_sane props=C01,C02 also=C09 tier=thorough class=functional covers=4 mem=10 timeout=900 est=60
//@ bounds: same under check sanity its
H!(step_tdh_sanity_sane, step_tdh(1, 0));
//@ harness: step_tdh_all_e42 props=C02 also=C07 tier=quick class=functional covers=4 mem=10 timeout=900 est=40
//@ bounds: state TDH-after-IHW, check all its: conforming TDH except continuation = 1: exactly one report, [E42], at the word (any offset, data format)
H!(step_tdh_all_e42, step_tdh(2, 1));
//@ harness: step_tdh_all_e444 props=C02,C07 tier=quick class=functional covers=4 mem=10 timeout=900 est=40
//@ bounds: ... except orbit = any value != RDH orbit: exactly one report, [E444], at the word
H!(step_tdh_all_e444, step_tdh(2, 2));
//@ harness: step_tdh_all_e445 props=C02 also=C07 tier=quick class=functional covers=4 mem=10 timeout=900 est=40
//@ bounds: ... RDH page 0, internal trigger: bc = any value != RDH bc: exactly one report, [E445], at the word
H!(step_tdh_all_e445, step_tdh(2, 3));
//@ harness: step_tdh_all_e44 props=C02 also=C07 tier=quick class=functional covers=4 mem=10 timeout=900 est=40
//@ bounds: ... trigger type = any value != RDH trigger type[11:0]: exactly one report, [E44], at the word
H!(step_tdh_all_e44, step_tdh(2, 4));
//@ harness: step_tdh_sanity_running_silent props=C02 tier=quick class=functional covers=4 mem=10 timeout=900 est=40
//@ bounds: check sanity its: a TDH breaking only the orbit rule is NOT reported (purely stateful violation)
H!(step_tdh_sanity_running_silent, step_tdh(1, 2));

// =============================================================================================
// choice states (after no-data TDH / after TDT packet_done=1), one word class per harness
// =============================================================================================
/// TDH in a choice state. which: 0 sanity (bc >= previous), 1 [E440] bc < previous.
/// no_data is concrete per instance: the FSM's `Tdh::ID if no_data` / `Tdh::ID if !no_data` match
/// guards are not recognised as exhaustive by symbolic execution, which would otherwise walk
/// into the (dead) unrecognised-ID arm and everything behind it.
fn step_choice_tdh(st: St, mode: u8, which: u8, no_data: bool) {
    let mut c = Ctx::new(cfg_of(mode));
    let rdh = conc_rdh(0, 1);
    let pos = any_pos();
    c.reach(st, &rdh, pos); // remembered TDH: bc = BC
    let mut f = tdh_conf();
    let mut w;
    if which == 0 {
        // Whole BYTES are either symbolic or concrete: the FSM reads no_data from byte 1 and the
        // [E440] rule reads bc from bytes 2..4; those stay concrete so that their branches fold.
        // Symbolic: trigger type low byte (byte 0; internal trigger = 0, so the trigger rule
        // depends on it), orbit (bytes 4..8), reserved byte 8.
        f.internal = false;
        f.tt = 0;
        f.no_data = no_data;
        f.bc = BC + 5;
        w = tdh_w(&f);
        w[0] = kani::any();
        w[4] = kani::any();
        w[5] = kani::any();
        w[6] = kani::any();
        w[7] = kani::any();
        w[8] = kani::any();
    } else if which == 1 {
        f.bc = any_u12();
        kani::assume(f.bc < BC);
        w = tdh_w(&f);
    } else {
        f.cont = true;
        f.bc = BC + 5;
        w = tdh_w(&f);
    }
    let sane = ref_tdh_sane(&w);
    let wpos = c.next_word_pos();
    c.feed(&w);
    let o = c.obs();
    assert!(truthful(&o, wpos, &w), "report with a wrong offset or wrong quoted bytes");
    if which == 0 {
        assert!((o.n_err == 0) == sane, "TDH in a choice state: reported iff insane");
        if !sane {
            assert!(o.any_at(b"[E40]", wpos), "insane TDH in a choice state not reported as [E40]");
        }
    } else if mode == 1 {
        assert!(o.n_err == 0, "stateful rule reported by check sanity");
    } else if which == 1 {
        assert!(o.any_at(b"[E440]", wpos) && o.n_err == 1, "TDH trigger_bc smaller than the previous TDH's not reported as [E440]");
    } else {
        assert!(o.any_at(b"[E4", wpos), "TDH with continuation = 1 after a TDT with packet_done = 1 not reported with a TDH error code at the word");
    }
    kani::cover!(which != 0 || sane, "conforming");
    kani::cover!(which != 0 || !sane, "insane");
    core::mem::forget(c);
}
//@ harness: step_choice_tdh_done_sane props=C01,C02,C09 also=C07 tier=quick class=functional covers=2 mem=10 timeout=900 est=40
//@ bounds: state after TDT packet_done=1, check all its: TDH with arbitrary trigger-type low byte (internal trigger 0), orbit and reserved byte 71:64, bc above the previous TDH's: silent iff sane else [E40] (all 2^80 sanity verdicts: C11)
H!(step_choice_tdh_done_sane, step_choice_tdh(St::AfterTdtDone, 2, 0, false));
//@ harness: step_choice_tdh_nodata_sane props=C01,C02 also=C07,C09 tier=quick class=functional covers=2 mem=10 timeout=900 est=40
//@ bounds: state after a no-data TDH, check all its: same
H!(step_choice_tdh_nodata_sane, step_choice_tdh(St::AfterNoData, 2, 0, true));
//@ harness: step_choice_tdh_e440 props=C02 also=C07 tier=quick class=functional covers=2 mem=10 timeout=900 est=40
//@ bounds: state after TDT packet_done=1, check all its: conforming TDH with any bc below the previous TDH's: exactly one report, [E440], at the word
H!(step_choice_tdh_e440, step_choice_tdh(St::AfterTdtDone, 2, 1, false));
//@ harness: step_choice_tdh_cont props=C02 also=C07 tier=quick class=functional covers=2 mem=10 timeout=900 est=40
//@ bounds: state after TDT packet_done=1, check all its: conforming TDH except continuation = 1 (documented: must be 0): reported with a TDH code [E4x] at the word
H!(step_choice_tdh_cont, step_choice_tdh(St::AfterTdtDone, 2, 2, false));
//@ harness: step_choice_tdh_e440_sanity props=C02 tier=quick class=functional covers=2 mem=10 timeout=900 est=40
//@ bounds: same under check sanity its: not reported
H!(step_choice_tdh_e440_sanity, step_choice_tdh(St::AfterTdtDone, 1, 1, false));

//@ harness: step_choice_ihw_done props=C01,C02 also=C07,C09 tier=quick class=functional covers=2 mem=10 timeout=900 est=60
//@ bounds: state after TDT packet_done=1, check all its, RDH stop bit 0: IHW with arbitrary 72 non-id bits: silent iff sane else [E30]
H!(step_choice_ihw_done, step_ihw_choice(St::AfterTdtDone, 2, 0));
//@ harness: step_choice_ihw_done_e12 props=C02 also=C07 tier=quick class=functional covers=2 mem=10 timeout=900 est=60
//@ bounds: same with RDH stop bit 1: [E12] at the word (plus [E30] iff insane)
H!(step_choice_ihw_done_e12, step_ihw_choice(St::AfterTdtDone, 2, 1));
//@ harness: step_choice_ihw_nodata_e12 props=C02 also=C07 tier=quick class=functional covers=2 mem=10 timeout=900 est=60
//@ bounds: state after a no-data TDH, RDH stop bit 1: IHW => [E12] at the word (plus [E30] iff insane)
H!(step_choice_ihw_nodata_e12, step_ihw_choice(St::AfterNoData, 2, 1));
//@ harness: step_choice_ihw_nodata props=C01,C02 tier=quick class=functional covers=2 mem=10 timeout=900 est=60
//@ bounds: state after a no-data TDH, RDH stop bit 0: IHW silent iff sane else [E30]
H!(step_choice_ihw_nodata, step_ihw_choice(St::AfterNoData, 2, 0));

fn step_ihw_choice(st: St, mode: u8, stop: u8) {
    let mut c = Ctx::new(cfg_of(mode));
    // the prefix contains a TDH that must conform to this RDH, so the RDH is concrete here
    let rdh = conc_rdh(stop, 1);
    let pos = any_pos();
    c.reach(st, &rdh, pos);
    let mut w: [u8; 10] = kani::any();
    w[9] = ID_IHW;
    let wpos = c.next_word_pos();
    c.feed(&w);
    let o = c.obs();
    let sane = ref_ihw_sane(&w);
    let stop_ok = mode != 2 || r_stop_bit(&rdh) == 0;
    assert!(truthful(&o, wpos, &w), "report with a wrong offset or wrong quoted bytes");
    assert!((o.n_err == 0) == (sane && stop_ok), "IHW in a choice state: silent iff sane and RDH stop bit 0");
    if !sane {
        assert!(o.any_at(b"[E30]", wpos), "insane IHW not reported as [E30]");
    }
    if !stop_ok {
        assert!(o.any_at(b"[E12]", wpos), "IHW with RDH stop bit 1 not reported as [E12]");
    }
    kani::cover!(sane, "sane IHW");
    kani::cover!(!sane, "reserved bits set");
    core::mem::forget(c);
}

/// DDW0 in a choice state. which: 0 sanity (RDH stop 1, page 1), 1 [E110] stop bit 0, 2 [E111] page 0
fn step_choice_ddw0(st: St, mode: u8, which: u8) {
    let mut c = Ctx::new(cfg_of(mode));
    let rdh = match which {
        1 => conc_rdh(0, 1),
        2 => conc_rdh(1, 0),
        _ => conc_rdh(1, 1),
    };
    let pos = any_pos();
    c.reach(st, &rdh, pos);
    if which == 0 {
        let prev: [u8; 10] = kani::any();
        c.v.status_words.replace_ddw(Ddw0::from_buf(&prev).unwrap());
    }
    let mut w: [u8; 10] = if which == 0 { kani::any() } else { W_DDW0 };
    w[9] = ID_DDW0;
    let sane = ref_ddw0_sane(&w);
    let wpos = c.next_word_pos();
    c.feed(&w);
    let o = c.obs();
    assert!(truthful(&o, wpos, &w), "report with a wrong offset or wrong quoted bytes");
    if which == 0 {
        assert!((o.n_err == 0) == sane, "DDW0 with conforming RDH: reported iff insane");
        if !sane {
            assert!(o.any_at(b"[E60]", wpos), "insane DDW0 (reserved bits, index) not reported as [E60]");
        }
    } else if mode == 1 {
        assert!(o.n_err == 0, "stateful DDW0 rule reported by check sanity");
    } else {
        let fam: &[u8] = if which == 1 { b"[E110]" } else { b"[E111]" };
        assert!(o.any_at(fam, wpos) && o.n_err == 1, "DDW0 against RDH stop bit / page counter not reported with its code");
    }
    kani::cover!(which != 0 || sane, "conforming");
    kani::cover!(which != 0 || (!sane && w[8] & 0xF0 != 0), "index not 0");
    core::mem::forget(c);
}
//@ harness: step_choice_ddw0_sane props=C01,C02 also=C07,C09 tier=quick class=functional covers=2 mem=10 timeout=900 est=40
//@ bounds: state after TDT packet_done=1, check all its, RDH stop 1 page 1: DDW0 with arbitrary 72 non-id bits: silent iff sane else [E60]
H!(step_choice_ddw0_sane, step_choice_ddw0(St::AfterTdtDone, 2, 0));
//@ harness: step_choice_ddw0_nodata_sane props=C01,C02 also=C09 tier=thorough class=functional covers=2 mem=10 timeout=900 est=40
//@ bounds: state after a no-data TDH: same
H!(step_choice_ddw0_nodata_sane, step_choice_ddw0(St::AfterNoData, 2, 0));
//@ harness: step_choice_ddw0_e110 props=C02,C07 tier=quick class=functional covers=2 mem=10 timeout=900 est=40
//@ bounds: conforming DDW0 while the RDH stop bit is 0: exactly one report, [E110], at the word
H!(step_choice_ddw0_e110, step_choice_ddw0(St::AfterTdtDone, 2, 1));
//@ harness: step_choice_ddw0_e111 props=C02 also=C07 tier=quick class=functional covers=2 mem=10 timeout=900 est=40
//@ bounds: conforming DDW0 while the RDH page counter is 0: exactly one report, [E111], at the word
H!(step_choice_ddw0_e111, step_choice_ddw0(St::AfterTdtDone, 2, 2));
//@ harness: step_choice_ddw0_e110_sanity props=C02 tier=quick class=functional covers=2 mem=10 timeout=900 est=40
//@ bounds: same as e110 under check sanity its: not reported
H!(step_choice_ddw0_e110_sanity, step_choice_ddw0(St::AfterTdtDone, 1, 1));

/// an id that is illegal in a choice state is never silently accepted
fn step_choice_illegal(st: St) {
    let mut c = Ctx::new(cfg_of(1)); // check sanity its: only the classification matters
    let rdh = conc_rdh(1, 1);
    let pos = any_pos();
    c.reach(st, &rdh, pos);
    let mut w = if st == St::AfterNoData { tdh_w(&tdh_conf()) } else { W_DDW0 };
    let id: u8 = kani::any();
    kani::assume(id != ID_TDH && id != ID_IHW && id != ID_DDW0);
    w[9] = id;
    let wpos = c.next_word_pos();
    c.feed(&w);
    let o = c.obs();
    assert!(truthful(&o, wpos, &w), "report with a wrong offset or wrong quoted bytes");
    assert!(o.any_at(b"[E99", wpos), "illegal ID in a choice state not reported as [E99x] at the word");
    // the fallback parse reports the assumed word's sanity error (wrong id)
    let fam: &[u8] = if st == St::AfterNoData { b"[E40]" } else { b"[E60]" };
    assert!(o.any_at(fam, wpos), "fallback parse of the unrecognised word did not report its sanity error");
    kani::cover!(id == ID_TDT, "TDT where TDH/IHW/DDW0 is expected");
    kani::cover!(id == 0x25, "data word where TDH/IHW/DDW0 is expected");
    core::mem::forget(c);
}
//@ harness: step_choice_illegal_done props=C09,C02,C07 tier=quick class=functional covers=2 mem=10 timeout=900 est=40
//@ bounds: state after TDT packet_done=1: every identifier byte other than TDH/IHW/DDW0: [E992] and the fallback DDW0 sanity error [E60], at the word
H!(step_choice_illegal_done, step_choice_illegal(St::AfterTdtDone));
//@ harness: step_choice_illegal_nodata props=C09,C02 also=C07 tier=quick class=functional covers=2 mem=10 timeout=900 est=40
//@ bounds: state after a no-data TDH: every identifier byte other than TDH/IHW/DDW0: [E990] and the fallback TDH sanity error [E40], at the word
H!(step_choice_illegal_nodata, step_choice_illegal(St::AfterNoData));

// =============================================================================================
// continuation TDH: which 0 sanity, 1 [E41], 2 [E441] bc, 3 [E442] orbit, 4 [E443] trigger type
// =============================================================================================
fn step_ctdh(mode: u8, which: u8) {
    let mut c = Ctx::new(cfg_of(mode));
    let rdh = conc_rdh(0, 1);
    let pos = any_pos();
    c.reach(St::CTdh, &rdh, pos); // remembered TDH: internal, bc BC, orbit ORBIT, trigger TRIG[11:0]
    let mut f = tdh_conf();
    f.cont = true;
    match which {
        0 => {
            // only the id/reserved half-word is symbolic: the four continuation rules read the other
            // fields, which must fold (DESIGN 1.6: four conditional pushes exhaust memory)
            f.id = kani::any();
            f.res0 = kani::any();
        }
        1 => f.cont = false,
        2 => {
            f.bc = any_u12();
            kani::assume(f.bc != BC);
        }
        3 => {
            f.orbit = kani::any();
            kani::assume(f.orbit != ORBIT);
        }
        _ => {
            f.tt = any_u12();
            kani::assume(f.tt != (TRIG & 0xFFF) as u16);
        }
    }
    let w = tdh_w(&f);
    let sane = ref_tdh_sane(&w);
    let wpos = c.next_word_pos();
    c.feed(&w);
    let o = c.obs();
    assert!(truthful(&o, wpos, &w), "report with a wrong offset or wrong quoted bytes");
    if which == 0 {
        assert!((o.n_err == 0) == sane, "continuation TDH: reported iff insane (running rules conform)");
        if !sane {
            assert!(o.any_at(b"[E40]", wpos), "insane continuation TDH not reported as [E40]");
        }
    } else if mode == 1 {
        assert!(o.n_err == 0, "stateful continuation rule reported by check sanity");
    } else {
        let fam: &[u8] = match which {
            1 => b"[E41]",
            2 => b"[E441]",
            3 => b"[E442]",
            _ => b"[E443]",
        };
        assert!(o.any_at(fam, wpos) && o.n_err == 1, "broken continuation rule not reported with its code at the word");
    }
    kani::cover!(which != 0 || sane, "conforming");
    kani::cover!(which != 0 || (!sane && f.id != ID_TDH), "wrong id in a single-successor state");
    core::mem::forget(c);
}
//@ harness: step_ctdh_all_sane props=C01,C02,C09 also=C07 tier=quick class=functional covers=2 mem=10 timeout=900 est=40
//@ bounds: state continuation-TDH, check all its: TDH with arbitrary identifier and reserved byte 71:64, other fields = remembered TDH with continuation 1: silent iff sane else [E40]
H!(step_ctdh_all_sane, step_ctdh(2, 0));
//@ harness: step_ctdh_e41 props=C02 also=C07 tier=quick class=functional covers=2 mem=10 timeout=900 est=40
//@ bounds: continuation TDH with continuation bit 0: exactly one report, [E41]
H!(step_ctdh_e41, step_ctdh(2, 1));
//@ harness: step_ctdh_e441 props=C02,C07 tier=quick class=functional covers=2 mem=10 timeout=900 est=40
//@ bounds: continuation TDH with any bc != remembered: exactly one report, [E441]
H!(step_ctdh_e441, step_ctdh(2, 2));
//@ harness: step_ctdh_e442 props=C02 also=C07 tier=quick class=functional covers=2 mem=10 timeout=900 est=40
//@ bounds: continuation TDH with any orbit != remembered: exactly one report, [E442]
H!(step_ctdh_e442, step_ctdh(2, 3));
//@ harness: step_ctdh_e443 props=C02 also=C07 tier=quick class=functional covers=2 mem=10 timeout=900 est=40
//@ bounds: continuation TDH with any trigger type != remembered: exactly one report, [E443]
H!(step_ctdh_e443, step_ctdh(2, 4));
//@ harness: step_ctdh_e441_sanity props=C02 tier=thorough class=functional covers=2 mem=10 timeout=900 est=40
//@ bounds: same as e441 under check sanity its: not reported
H!(step_ctdh_e441_sanity, step_ctdh(1, 2));

// =============================================================================================
// data position (Data / c_Data), one word class per harness
//   class 0: TDT (72 non-id bits symbolic)       class 1: IB data word (id in the 001 class symbolic, lanes symbolic)
//   class 2: OB data word, id concrete per instance, lanes symbolic
//   class 3: illegal id (not data / TDT / CDW)   class 4: CDW (first of the link)
// =============================================================================================
fn step_data(st: St, mode: u8, class: u8, ob_id: u8) {
    let mut c = Ctx::new(cfg_of(mode));
    let rdh = conc_rdh(0, 0);
    let pos = any_pos();
    c.reach(st, &rdh, pos);
    let lanes: u32 = kani::any();
    kani::assume(lanes >> 28 == 0);
    if class == 1 || class == 2 {
        let ihw = [lanes as u8, (lanes >> 8) as u8, (lanes >> 16) as u8, (lanes >> 24) as u8, 0, 0, 0, 0, 0, 0xE0];
        c.v.status_words.replace_ihw(Ihw::from_buf(&ihw).unwrap());
    }
    if class == 0 {
        // arbitrary remembered TDT: the verdict on the new one must not depend on it
        let prev: [u8; 10] = kani::any();
        c.v.status_words.replace_tdt(Tdt::from_buf(&prev).unwrap());
    }
    let mut w: [u8; 10] = kani::any();
    match class {
        0 => {
            w[9] = ID_TDT;
            // byte 8 (packet_done, reserved 71:68/66) concrete per instance: the FSM's match guards on
            // packet_done must fold (see step_choice_tdh); reserved bits 60:56 (byte 7) stay symbolic
            w[8] = ob_id & 1;
        }
        1 => w[9] = ob_id,
        2 => w[9] = ob_id,
        3 => kani::assume(!ref_is_ib_class(w[9]) && !ref_is_ob_class(w[9]) && w[9] != ID_TDT && w[9] != ID_CDW),
        _ => w[9] = ID_CDW,
    }
    let id = w[9];
    let wpos = c.next_word_pos();
    c.feed(&w);
    let o = c.obs();
    assert!(truthful(&o, wpos, &w), "report with a wrong offset or wrong quoted bytes");
    match class {
        0 => {
            let sane = ref_tdt_sane(&w);
            assert!((o.n_err == 0) == sane, "TDT: reported iff insane");
            if !sane {
                assert!(o.any_at(b"[E50]", wpos), "insane TDT not reported as [E50]");
            }
            
            
        }
        1 => {
            let valid = ref_is_data_id(id);
            let active = ref_lane_active(id & 0x1F, lanes);
            if !valid {
                // 0x29..=0x3F: inner-barrel class, outside the valid range: illegal in the data position
                assert!(o.any_at(b"[E991]", wpos) && o.any_at(b"[E70]", wpos), "invalid IB-class id not reported as [E991]/[E70]");
            } else if mode == 1 {
                assert!(o.n_err == 0, "valid IB data word reported by check sanity");
            } else {
                assert!((o.n_err == 0) == active, "IB data word: reported iff its lane is not active in the IHW");
                if !active {
                    assert!(o.any_at(b"[E72]", wpos), "inactive IB lane not reported as [E72]");
                }
            }
            
            
            
        }
        2 => {
            let active = ref_lane_active(ref_ob_lane(id), lanes);
            if mode == 1 {
                assert!(o.n_err == 0, "valid OB data word reported by check sanity");
            } else {
                assert!((o.n_err == 0) == active, "OB data word: reported iff its lane is not active in the IHW");
                if !active {
                    assert!(o.any_at(b"[E71]", wpos), "inactive OB lane not reported as [E71]");
                }
            }
            
            
        }
        3 => {
            assert!(o.any_at(b"[E991]", wpos), "illegal ID in the data position not reported as [E991] at the word");
            assert!(o.any_at(b"[E70]", wpos), "fallback data-word parse did not report [E70] for the invalid data ID");
            
            
        }
        _ => {
            if st == St::Data {
                assert!(o.n_err == 0, "first CDW of a link reported");
            } else {
                // a CDW is legal only at the start of the payload's data; later its id is not a data word id
                assert!(o.any_at(b"[E70]", wpos), "CDW identifier after data words not reported as [E70] at the word");
            }
        }
    }
    // reachability witnesses (phrased so that each instance can satisfy all of them)
    kani::cover!(class != 0 || ref_tdt_sane(&w), "conforming TDT");
    kani::cover!(class != 0 || !ref_tdt_sane(&w), "insane TDT");
    kani::cover!(class != 1 || !ref_is_data_id(id) || ref_lane_active(id & 0x1F, lanes), "active IB lane");
    kani::cover!(class != 1 || !ref_is_data_id(id) || !ref_lane_active(id & 0x1F, lanes), "inactive IB lane");
    kani::cover!(class != 2 || ref_lane_active(ref_ob_lane(id), lanes), "active OB lane");
    kani::cover!(class != 2 || !ref_lane_active(ref_ob_lane(id), lanes), "inactive OB lane");
    kani::cover!(class != 3 || id == ID_IHW, "IHW in the data position");
    kani::cover!(class != 3 || id == ID_TDH, "TDH in the data position");
    core::mem::forget(c);
}
//@ harness: step_data_tdt props=C01,C02 also=C07,C09 tier=quick class=functional covers=8 mem=10 timeout=900 est=40
//@ bounds: state Data, check all its: TDT with byte 8 = 0x01 (packet_done) and arbitrary bits 63:0: silent iff sane else [E50] at the word
H!(step_data_tdt, step_data(St::Data2, 2, 0, 1));
//@ harness: step_data_tdt_notdone props=C01,C02 also=C07,C09 tier=quick class=functional covers=8 mem=10 timeout=900 est=40
//@ bounds: same with packet_done = 0
H!(step_data_tdt_notdone, step_data(St::Data2, 2, 0, 0));
//@ harness: step_cdata_tdt props=C01,C02 also=C09 tier=thorough class=functional covers=8 mem=10 timeout=900 est=40
//@ bounds: state continuation Data, packet_done = 1
H!(step_cdata_tdt, step_data(St::CData, 2, 0, 1));
//@ harness: step_data_ib props=C01,C02,C07 also=C09 tier=quick class=functional covers=8 mem=12 timeout=900 est=60
//@ bounds: state Data, check all its: IB data word id 0x25 with arbitrary data bytes x arbitrary 28-bit IHW lane mask: [E72] iff lane 5 inactive (all ids x masks: C11 c11_ib_lane)
H!(step_data_ib, step_data(St::Data, 2, 1, 0x25));
//@ harness: step_data_ib_invalid props=C02,C09 also=C07 tier=quick class=functional covers=8 mem=12 timeout=900 est=60
//@ bounds: state Data after a data word: word with the IB-class id 0x2B (outside 0x20..=0x28): [E991] and [E70] at the word
H!(step_data_ib_invalid, step_data(St::Data2, 2, 1, 0x2B));
//@ harness: step_data_ib_sanity props=C01,C02 tier=quick class=functional covers=8 mem=12 timeout=900 est=60
//@ bounds: as step_data_ib under check sanity its: the lane rule is not reported
H!(step_data_ib_sanity, step_data(St::Data, 1, 1, 0x25));
//@ harness: step_data_ob43 props=C01,C02 also=C07,C09 tier=quick class=functional covers=8 mem=12 timeout=900 est=60
//@ bounds: state Data after a data word, check all its: OB data word id 0x43 (connector 0 input 3) x arbitrary lane mask: [E71] iff lane 3 inactive (all ids x masks: C11 c11_ob_lane)
H!(step_data_ob43, step_data(St::Data2, 2, 2, 0x43));
//@ harness: step_data_ob5e props=C01,C02 also=C07 tier=thorough class=functional covers=8 mem=12 timeout=900 est=60
//@ bounds: same for id 0x5E (connector 3 input 6, lane 27)
H!(step_data_ob5e, step_data(St::Data2, 2, 2, 0x5E));
//@ harness: step_data_illegal props=C09,C02 also=C07 tier=quick class=functional covers=8 mem=12 timeout=900 est=60
//@ bounds: state Data: every identifier outside the data classes other than TDT/CDW (IHW, TDH, DDW0, unknown): [E991] and [E70] at the word
H!(step_data_illegal, step_data(St::Data2, 1, 3, 0));
//@ harness: step_data_cdw_late_sanity props=C02,C09 also=C07 tier=quick class=functional covers=8 mem=10 timeout=900 est=40
//@ bounds: state Data after a data word, check sanity its: a word with the CDW identifier (arbitrary content) is no longer legal: [E70] at the word
H!(step_data_cdw_late_sanity, step_data(St::Data2, 1, 4, 0));
//@ harness: step_data_cdw_late_all props=C02,C09 also=C07 tier=quick class=functional covers=8 mem=10 timeout=900 est=40
//@ bounds: same under check all its
H!(step_data_cdw_late_all, step_data(St::Data2, 2, 4, 0));
//@ harness: step_data_cdw_first props=C01,C09 tier=quick class=functional covers=8 mem=10 timeout=900 est=40
//@ bounds: state Data at payload start: a CDW with arbitrary content is accepted silently (first CDW of the link)
H!(step_data_cdw_first, step_data(St::Data, 2, 4, 0));

// =============================================================================================
// C12: a payload ending in more than 15 bytes of 0xFF is reported once at the RDH, no word of it
// is examined, and the next packet is judged from the initial state
// =============================================================================================
//@ harness: step_bad_padding props=C12,C02,C07,C04 tier=quick class=functional covers=1 mem=12 timeout=1200 est=90
//@ bounds: validator in the Data state (mid-packet), then packets whose payload is 16 resp. 24 bytes of 0xFF, symbolic packet offset and data format: exactly one message each, an error at the RDH offset; no word checked; the following IHW is accepted silently (state was reset)
#[kani::proof]
#[kani::unwind(26)]
#[kani::stub(alloc::fmt::format, crate::vsup::stub_format)]
#[kani::stub(core::fmt::write, crate::vsup::stub_write)]
#[kani::stub(flume::Sender::send, crate::vsup::stub_send)]
#[kani::stub(crate::analyze::validators::its::util::report_error, crate::vsup::stub_report_error_fp)]
fn step_bad_padding() {
    bad_padding(16);
    bad_padding(24);
}
fn bad_padding(len: usize) {
    let mut c = Ctx::new(cfg_of(2));
    let first = rdh_bytes(0, 0, 2);
    c.reach(St::Data, &first, 0x1000);
    let rdh = conc_rdh(0, 1);
    let pos = any_pos();
    let payload = [0xFFu8; 24];
    let r = RdhCru::from_buf(&rdh).unwrap();
    let (tx2, _rx2) = flume::unbounded();
    let res = crate::analyze::validators::its::lib::do_payload_checks((&r, &payload[..len], pos), &tx2, &mut c.v);
    assert!(res.is_ok());
    #[cfg(feature = "verif_native")]
    let o = crate::vsup::observe(&_rx2);
    #[cfg(not(feature = "verif_native"))]
    let o = c.obs();
    assert!(o.n_send == 1 && o.n_err == 1, "over-long padding must be reported exactly once and no word examined");
    assert!(o.reps[0].has_pos && o.reps[0].pos == pos, "the padding error must carry the RDH offset");
    // state reset: an IHW is now the expected word
    crate::vsup::reset();
    c.set_rdh(&rdh, pos);
    c.feed(&W_IHW);
    let o2 = c.obs();
    assert!(o2.n_err == 0, "protocol state not reset after the skipped payload");
    kani::cover!(pos == 0x40, "some offset");
    core::mem::forget(c);
    core::mem::forget(tx2);
    core::mem::forget(_rx2);
}

// =============================================================================================
// C20: configured trigger period, driver level (consecutive internal-trigger TDHs only)
// =============================================================================================
//@ harness: step_trigger_period props=C20,C02 tier=quick class=functional covers=2 mem=16 timeout=1500 est=200
//@ bounds: trigger period configured (arbitrary u16): state after TDT packet_done with a remembered internal-trigger TDH whose bc is arbitrary <= 3563, new TDH with internal trigger and arbitrary bc <= 3563: [E45] iff (bc - previous bc) mod 3564 != period, at the TDH's offset
#[kani::proof]
#[kani::unwind(5)]
#[kani::stub(alloc::fmt::format, crate::vsup::stub_format)]
#[kani::stub(core::fmt::write, crate::vsup::stub_write)]
#[kani::stub(flume::Sender::send, crate::vsup::stub_send)]
#[kani::stub(crate::analyze::validators::its::util::report_error, crate::vsup::stub_report_error_fp)]
fn step_trigger_period() {
    trigger_period(true);
}
//@ harness: step_trigger_period_not_internal props=C20 tier=quick class=functional covers=2 mem=16 timeout=1500 est=200
//@ bounds: same with a new TDH WITHOUT internal trigger: never compared, no [E45]
#[kani::proof]
#[kani::unwind(5)]
#[kani::stub(alloc::fmt::format, crate::vsup::stub_format)]
#[kani::stub(core::fmt::write, crate::vsup::stub_write)]
#[kani::stub(flume::Sender::send, crate::vsup::stub_send)]
#[kani::stub(crate::analyze::validators::its::util::report_error, crate::vsup::stub_report_error_fp)]
fn step_trigger_period_not_internal() {
    trigger_period(false);
}
fn trigger_period(internal: bool) {
    let period: u16 = kani::any();
    unsafe {
        crate::vsup::VCFG_DYN.cfg = VCfg { mode: 2, target: 1, trigger_period: Some(period), ..crate::vsup::VCFG0 };
    }
    let mut c = Ctx::new(crate::vsup::vcfg_dyn());
    let rdh = conc_rdh(0, 1);
    let pos = any_pos();
    c.reach(St::AfterTdtDone, &rdh, pos);
    // remembered internal-trigger TDH with an arbitrary bunch crossing
    let pbc: u16 = kani::any();
    kani::assume(pbc <= 3563);
    let mut pf = tdh_conf();
    pf.bc = pbc;
    c.v.status_words.replace_tdh(Tdh::from_buf(&tdh_w(&pf)).unwrap());
    c.v.status_words.replace_tdh(Tdh::from_buf(&tdh_w(&pf)).unwrap());
    let mut f = tdh_conf();
    f.internal = internal;
    let cbc: u16 = kani::any();
    kani::assume(cbc <= 3563);
    f.bc = cbc;
    let w = tdh_w(&f);
    let wpos = c.next_word_pos();
    c.feed(&w);
    let o = c.obs();
    let dist = (cbc as u32 + 3564 - pbc as u32) % 3564;
    let expect = internal && dist != period as u32;
    assert!(o.any(b"[E45]") == expect, "[E45] must be reported exactly for consecutive internal-trigger TDHs whose distance mod 3564 differs from the configured period");
    if expect {
        assert!(o.any_at(b"[E45]", wpos), "[E45] must carry the TDH's offset");
    }
    kani::cover!(!internal || expect, "period mismatch / not compared");
    kani::cover!(!internal || (!expect && cbc < pbc), "match across the orbit wrap");
    core::mem::forget(c);
}

// =============================================================================================
// C04 (stave mode): lane data that arrives while no readout frame is open (the first TDH of the
// link has continuation = 1) is dropped without a panic, and the closing TDT reports [E59]
// =============================================================================================
//@ harness: step_stave_orphan_data props=C04,C02 tier=quick class=functional covers=1 mem=12 timeout=900 est=60
//@ bounds: check all its-stave, first packet of a link: IHW, TDH with continuation = 1 (no frame start), an inner-barrel data word with arbitrary data bytes, TDT packet_done: no panic; the TDH is reported ([E4x]) and the TDT reports [E59] at its offset (packet offset < 2^40, data format {0,2})
#[kani::proof]
#[kani::unwind(4)]
#[kani::stub(alloc::fmt::format, crate::vsup::stub_format)]
#[kani::stub(core::fmt::write, crate::vsup::stub_write)]
#[kani::stub(flume::Sender::send, crate::vsup::stub_send)]
#[kani::stub(crate::analyze::validators::its::util::report_error, crate::vsup::stub_report_error_fp)]
fn step_stave_orphan_data() {
    let mut c = Ctx::new(&crate::vsup::VCFG_ALL_STAVE);
    let rdh = conc_rdh(0, 0);
    let pos = any_pos();
    c.set_rdh(&rdh, pos);
    c.feed(&W_IHW);
    let mut f = tdh_conf();
    f.cont = true;
    crate::vsup::reset();
    c.feed(&tdh_w(&f));
    let o1 = c.obs();
    assert!(o1.any(b"[E4"), "first TDH of a link with continuation = 1 not reported");
    let mut w: [u8; 10] = kani::any();
    w[9] = 0x25;
    c.feed(&w); // must not panic: there is no open frame to store the lane data in
    crate::vsup::reset();
    #[cfg(feature = "verif_native")]
    {
        let _ = c.obs();
    }
    let tpos = c.next_word_pos();
    c.feed(&w_tdt(true));
    let o2 = c.obs();
    assert!(o2.any_at(b"[E59]", tpos), "TDT closing a frame that was never opened must report [E59] at its offset");
    kani::cover!(w[0] == 0xA5, "arbitrary lane data");
    core::mem::forget(c);
}

// =============================================================================================
// C01 K5: a whole conforming heartbeat frame (two packets) with symbolic free fields => no report.
// Control flow (ids, flags) is concrete; orbit, bunch crossings, trigger type, lane data, lane
// status and the active-lane mask are symbolic (fields that must agree share one symbolic value).
// =============================================================================================
//@ harness: c01_template_hbf props=C01 tier=quick class=functional covers=1 mem=12 timeout=1500 est=120
//@ bounds: check all its, one HBF = packet 1 (stop 0, page 0): IHW, TDH (internal trigger), 2 inner data words, TDT packet_done, TDH (later bc), data word, TDT packet_done, no-data TDH; packet 2 (stop 1, page 1): DDW0. Symbolic: 3 x 9 lane data bytes (hit content), the 56 TDT/DDW0 lane status bits, packet offsets (< 2^40), data format {0,2}: ZERO reports
H!(c01_template_hbf, template_hbf(false));
//@ harness: c01_template_hbf_rich props=C01 tier=thorough required=no class=functional covers=1 mem=28 timeout=900 est=600
//@ bounds: same frame with orbit, bunch crossings and trigger type symbolic as well (exhausts 16 GB: best effort)
H!(c01_template_hbf_rich, template_hbf(true));
fn template_hbf(rich: bool) {
    let mut c = Ctx::new(cfg_of(2));
    let orbit: u32 = if rich { kani::any() } else { ORBIT };
    let bc: u16 = if rich { kani::any() } else { BC };
    kani::assume(bc < 0xd00);
    let bc2: u16 = if rich { kani::any() } else { BC + 0x100 };
    kani::assume(bc2 > bc && bc2 <= 0xdeb);
    let tt_low: u8 = if rich { kani::any() } else { TRIG as u8 }; // trigger type bits 7:0 (bit 4 = PhT)
    let df: u8 = kani::any();
    kani::assume(df == 0 || df == 2);
    let mk_rdh = |stop: u8, page: u16| {
        let mut b = rdh_bytes(stop, page, df);
        b[16] = bc as u8; b[17] = (bc >> 8) as u8;
        b[20] = orbit as u8; b[21] = (orbit >> 8) as u8; b[22] = (orbit >> 16) as u8; b[23] = (orbit >> 24) as u8;
        b[32] = tt_low;
        b
    };
    let mk_tdh = |no_data: bool, bcv: u16| {
        let mut f = tdh_conf();
        f.orbit = orbit;
        f.bc = bcv;
        f.no_data = no_data;
        let mut w = tdh_w(&f);
        w[0] = tt_low;
        w
    };
    let ihw = W_IHW;
    let mut d1: [u8; 10] = kani::any();
    d1[9] = 0x25;
    let mut d2: [u8; 10] = kani::any();
    d2[9] = 0x26;
    let mut d3: [u8; 10] = kani::any();
    d3[9] = 0x25;
    // lane status bytes symbolic, the bytes holding reserved bits concrete (their checks must fold)
    let ls: [u8; 7] = kani::any();
    let tdt = [ls[0], ls[1], ls[2], ls[3], ls[4], ls[5], ls[6], 0xE0, 0x01, 0xF0];
    let ddw = [ls[6], ls[5], ls[4], ls[3], ls[2], ls[1], ls[0], 0x00, 0x0A, 0xE4];
    let p1 = any_pos();
    crate::vsup::reset();
    c.set_rdh(&mk_rdh(0, 0), p1);
    c.feed(&ihw);
    c.feed(&mk_tdh(false, bc));
    c.feed(&d1);
    c.feed(&d2);
    c.feed(&tdt);
    c.feed(&mk_tdh(false, bc2));
    c.feed(&d3);
    c.feed(&tdt);
    c.feed(&mk_tdh(true, bc2)); // a no-data TDH (same bc is legal: "not decreasing")
    let p2 = any_pos();
    c.set_rdh(&mk_rdh(1, 1), p2); // the closing page of the HBF carries only the DDW0
    c.feed(&ddw);
    let o = c.obs();
    assert!(o.n_err == 0 && o.n_send == 0, "a conforming heartbeat frame was reported");
    kani::cover!(df == 0 && d1[0] == 0xFF, "data format 0, arbitrary hit byte");
    core::mem::forget(c);
}

// =============================================================================================
// CDW rule [E81]: a CDW whose user field differs from the previous CDW's must have index 0
// =============================================================================================
fn step_cdw(mode: u8) {
    let mut c = Ctx::new(cfg_of(mode));
    let rdh = conc_rdh(0, 0);
    let pos = any_pos();
    c.reach(St::Data, &rdh, pos);
    let mut prev: [u8; 10] = kani::any();
    prev[9] = ID_CDW;
    c.v.status_words.replace_cdw(Cdw::from_buf(&prev).unwrap());
    let mut w: [u8; 10] = kani::any();
    w[9] = ID_CDW;
    let wpos = c.next_word_pos();
    c.feed(&w);
    let o = c.obs();
    assert!(truthful(&o, wpos, &w), "report with a wrong offset or wrong quoted bytes");
    // layout: [47:0] user fields, [71:48] calibration word index
    let user_differs = w[0] != prev[0] || w[1] != prev[1] || w[2] != prev[2] || w[3] != prev[3] || w[4] != prev[4] || w[5] != prev[5];
    let index_nonzero = w[6] != 0 || w[7] != 0 || w[8] != 0;
    let expect = mode == 2 && user_differs && index_nonzero;
    assert!((o.n_err == 1) == expect && o.n_err <= 1, "CDW: reported iff the user field changed and the index is not 0 (check all only)");
    if expect {
        assert!(o.any_at(b"[E81]", wpos), "CDW index rule not reported as [E81]");
    }
    kani::cover!(expect || mode != 2, "index rule broken");
    kani::cover!(user_differs && !index_nonzero, "new user field, index 0");
    kani::cover!(!user_differs && index_nonzero, "same user field, running index");
    core::mem::forget(c);
}
//@ harness: step_cdw_all props=C01,C02,C07 tier=quick class=functional covers=3 mem=10 timeout=900 est=40
//@ bounds: state Data at payload start, check all its: arbitrary remembered CDW x arbitrary new CDW (72 non-id bits each): [E81] at the word iff the user field [47:0] changed and the index [71:48] is not 0
H!(step_cdw_all, step_cdw(2));
//@ harness: step_cdw_sanity props=C02 tier=quick class=functional covers=3 mem=10 timeout=900 est=40
//@ bounds: same under check sanity its: never reported (stateful rule)
H!(step_cdw_sanity, step_cdw(1));

//@ harness: step_stave_open_frame props=C04,C01 tier=quick class=functional covers=1 mem=12 timeout=900 est=60
//@ bounds: check all its-stave, arbitrary FEE ID in the RDH (any layer incl. the non-existent 7, any stave): IHW, TDH (continuation 0: opens a readout frame), two data words of lanes 5 and 6 with arbitrary data bytes: no panic and no report (the frame is not closed here: closing runs the HashMap-based ALPIDE checks, which are out of reach)
#[kani::proof]
#[kani::unwind(11)]
#[kani::stub(alloc::fmt::format, crate::vsup::stub_format)]
#[kani::stub(core::fmt::write, crate::vsup::stub_write)]
#[kani::stub(flume::Sender::send, crate::vsup::stub_send)]
#[kani::stub(crate::analyze::validators::its::util::report_error, crate::vsup::stub_report_error_fp)]
fn step_stave_open_frame() {
    let mut c = Ctx::new(&crate::vsup::VCFG_ALL_STAVE);
    let mut rdh = conc_rdh(0, 0);
    let fee: u16 = kani::any();
    rdh[2] = fee as u8;
    rdh[3] = (fee >> 8) as u8;
    let pos = any_pos();
    crate::vsup::reset();
    c.set_rdh(&rdh, pos);
    c.feed(&W_IHW);
    c.feed(&tdh_w(&tdh_conf()));
    let mut d1: [u8; 10] = kani::any();
    d1[9] = 0x25;
    let mut d2: [u8; 10] = kani::any();
    d2[9] = 0x26;
    c.feed(&d1);
    c.feed(&d2);
    let o = c.obs();
    assert!(o.n_err == 0, "conforming words reported in stave mode");
    kani::cover!((fee >> 12) & 7 == 7, "FEE ID with layer 7");
    core::mem::forget(c);
}
