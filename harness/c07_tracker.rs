//@ attach: fastpasta/src/analyze/validators/its/cdp_running/cdp_tracker.rs
//@ mod: verif_c07
// C07 K3 — word offset = packet offset + 64 + (index-1) x slot size, for every index.
#![allow(unused_imports, dead_code, clippy::all)]
use super::*;
use alice_protocol_reader::prelude::{RdhCru, SerdeRdh, RDH};

//@ harness: c07_tracker_pos props=C07,C02 tier=quick class=functional covers=2 mem=8 timeout=600 est=30
//@ bounds: all 2^512 headers x packet offsets < 2^40 x word counters 1..=65535: current_word_mem_pos = offset + 64 + (counter-1) x (16 if data_format == 0 else 10); incr_word_count advances by exactly one slot; new() starts before the first word
#[kani::proof]
fn c07_tracker_pos() {
    let b: [u8; 64] = kani::any();
    let rdh = RdhCru::from_buf(&b).unwrap();
    let pos: u64 = kani::any();
    kani::assume(pos < (1u64 << 40));
    let mut t = CdpTracker::new(&rdh, pos);
    assert!(t.gbt_word_counter == 0 && t.start_of_data());
    let n: u16 = kani::any();
    kani::assume(n >= 1 && n < u16::MAX);
    t.gbt_word_counter = n;
    let slot: u64 = if b[24] == 0 { 16 } else { 10 };
    let here = t.current_word_mem_pos();
    assert!(here == pos + 64 + (n as u64 - 1) * slot, "word offset formula");
    t.incr_word_count();
    assert!(t.current_word_mem_pos() == here + slot, "incr_word_count does not advance by one slot");
    kani::cover!(b[24] == 0 && n == 1000, "format 0, word 1000");
    kani::cover!(b[24] == 2 && n == 1, "format 2, first word");
}
