//@ attach: alice_protocol_reader/src/lib.rs
//@ mod: verif_c03b
// C03 — batching: get_array_batch fills a batch up to its capacity, returns a short batch at the end
// of the input and an error only when nothing could be read; nothing is lost or duplicated at the
// batch boundary. The function is generic in the capacity; 1 and 2 are decided (100 is outside).
#![allow(unused_imports, dead_code, clippy::all)]
use super::*;
use crate::prelude::RdhCru;
use crate::rdh::{ByteSlice, SerdeRdh, RDH, RDH_CRU};
use crate::vsup::{MemReader, VFilter};

const N: usize = 160;

fn one_packet_stream(s0: usize) -> [u8; N] {
    let mut d: [u8; N] = kani::any();
    d[8] = s0 as u8; d[9] = 0; d[10] = s0 as u8; d[11] = 0;
    d
}

fn batch<const CAP: usize>() {
    let s0 = 80usize;
    let d = one_packet_stream(s0);
    let cfg = VFilter { skip_payload: true, link: None, fee: None, stave: None };
    let reader = MemReader::<N> { data: d, len: s0, pos: 0, pipe: false };
    let mut sc = InputScanner::new(&cfg, Box::new(reader), None);
    let r = get_array_batch::<RdhCru, CAP>(&mut sc);
    assert!(r.is_ok(), "a readable packet was not delivered in the batch");
    let arr = r.unwrap();
    assert!(arr.len() == 1, "batch does not hold exactly the one packet of the input");
    let (rdh, _payload, pos) = arr.into_iter().next().unwrap();
    assert!(pos == 0 && rdh.link_id() == d[12] && rdh.offset_to_next() == s0 as u16 && rdh.rdh1().orbit == u32::from_le_bytes([d[20], d[21], d[22], d[23]]), "packet altered by batching");
    // next batch: nothing left => an error, not an empty batch (the reader thread stops on it)
    let r2 = get_array_batch::<RdhCru, CAP>(&mut sc);
    assert!(r2.is_err(), "an empty batch was returned at the end of the input");
    kani::cover!(d[20] == 0x11, "arbitrary header byte");
    core::mem::forget(r2);
    core::mem::forget(sc);
}

//@ harness: c03_batch_cap1 props=C03 tier=thorough required=no class=functional covers=1 mem=28 timeout=900 est=400 args=-Z,restrict-vtable
//@ bounds: get_array_batch with capacity 1 on a one-packet input (80 bytes, all header bytes but the sizes symbolic, payload skipped): the FULL batch holds the packet unchanged at offset 0; the next call reports the end of input as an error
#[kani::proof]
#[kani::unwind(3)]
#[kani::stub(alloc::fmt::format, crate::vsup::stub_format)]
#[kani::stub(core::fmt::write, crate::vsup::stub_write)]
#[kani::stub(flume::Sender::send, crate::vsup::stub_send)]
fn c03_batch_cap1() {
    batch::<1>();
}

//@ harness: c03_batch_cap2 props=C03 tier=thorough required=no class=functional covers=1 mem=28 timeout=900 est=400 args=-Z,restrict-vtable
//@ bounds: same with capacity 2: a SHORT batch (1 of 2) is returned, not an error; the next call is an error
#[kani::proof]
#[kani::unwind(4)]
#[kani::stub(alloc::fmt::format, crate::vsup::stub_format)]
#[kani::stub(core::fmt::write, crate::vsup::stub_write)]
#[kani::stub(flume::Sender::send, crate::vsup::stub_send)]
fn c03_batch_cap2() {
    batch::<2>();
}
