//@ attach: fastpasta/src/analyze/view/lib.rs
//@ mod: verif_c19
// C19 (decoding kernels of the views) / C07 K4: word offsets in views, decoded attribute labels.
#![allow(unused_imports, dead_code, clippy::all)]
use super::*;
use crate::words::its::status_words::util::*;

//@ harness: c19_word_pos props=C19,C07 tier=quick class=functional covers=2 mem=6 timeout=300 est=10
//@ bounds: all word indices < 2^16, data formats (u8), packet offsets < 2^40: view word offset = packet offset + 64 + index x slot (16 for format 0, else 10)
#[kani::proof]
fn c19_word_pos() {
    let idx: usize = kani::any();
    kani::assume(idx < 65536);
    let df: u8 = kani::any();
    let pos: u64 = kani::any();
    kani::assume(pos < (1u64 << 40));
    let got = calc_current_word_mem_pos(idx, df, pos);
    let slot: u64 = if df == 0 { 16 } else { 10 };
    assert!(got == pos + 64 + (idx as u64) * slot, "view word offset formula");
    kani::cover!(df == 0 && idx == 999, "format 0");
    kani::cover!(df == 2 && idx == 1, "format 2");
}

fn eq(s: &str, lit: &str) -> bool {
    s.as_bytes() == lit.as_bytes()
}

//@ harness: c19_tdh_labels props=C19 tier=quick class=functional covers=4 mem=8 timeout=600 est=30
//@ bounds: all 2^80 TDH words: trigger-kind / continuation / no-data labels <=> the documented bits (SOC = trigger bit 9, internal = bit 12, PhT = trigger bit 4; continuation bit 14; no_data bit 13)
#[kani::proof]
#[kani::unwind(12)]
fn c19_tdh_labels() {
    let w: [u8; 10] = kani::any();
    let tt = (w[0] as u16) | ((w[1] & 0x0F) as u16) << 8;
    let soc = (tt >> 9) & 1 == 1;
    let internal = (w[1] >> 4) & 1 == 1;
    let pht = (tt >> 4) & 1 == 1;
    let t = tdh_trigger_as_string(&w);
    let expect = if soc { "SOC     " } else if internal { "Internal" } else if pht { "PhT     " } else { "Other   " };
    assert!(eq(&t, expect), "TDH trigger label");
    let c = tdh_continuation_as_string(&w);
    assert!(eq(&c, if (w[1] >> 6) & 1 == 1 { "Cont." } else { "     " }), "TDH continuation label");
    let n = tdh_no_data_as_string(&w);
    assert!(eq(&n, if (w[1] >> 5) & 1 == 1 { "No data" } else { "Data!  " }), "TDH no-data label");
    kani::cover!(soc, "SOC");
    kani::cover!(!soc && internal, "internal");
    kani::cover!(!soc && !internal && pht, "PhT");
    kani::cover!(!soc && !internal && !pht, "other");
    core::mem::forget((t, c, n));
}

//@ harness: c19_tdt_ddw_labels props=C19 tier=quick class=functional covers=4 mem=8 timeout=600 est=30
//@ bounds: all 2^80 TDT/DDW0 words: packet-status label <=> packet_done bit; lane-status label = worst of the 28 two-bit lane states (11 fatal, 10 error, 01 warning)
#[kani::proof]
#[kani::unwind(12)]
fn c19_tdt_ddw_labels() {
    let w: [u8; 10] = kani::any();
    let p = tdt_packet_done_as_string(&w);
    assert!(eq(&p, if w[8] & 1 == 1 { "Complete" } else { "Split   " }), "TDT packet status label");
    let mut fatal = false;
    let mut error = false;
    let mut warning = false;
    let mut i = 0;
    while i < 7 {
        let b = w[i];
        let mut k = 0;
        while k < 4 {
            let st = (b >> (2 * k)) & 3;
            fatal |= st == 3;
            error |= st == 2;
            warning |= st == 1;
            k += 1;
        }
        i += 1;
    }
    let l = ddw0_tdt_lane_status_as_string(&w);
    let expect = if fatal { "Fatal  " } else if error { "Error  " } else if warning { "Warning" } else { "-      " };
    assert!(eq(&l, expect), "lane status label");
    kani::cover!(fatal, "fatal");
    kani::cover!(!fatal && error, "error");
    kani::cover!(!fatal && !error && warning, "warning");
    kani::cover!(!fatal && !error && !warning, "ok");
    core::mem::forget((p, l));
}

//@ harness: c19_rdh_trigger_label props=C19 tier=quick class=functional covers=3 mem=8 timeout=600 est=20
//@ bounds: all 2^32 RDH trigger types: label = first of SOC (bit 9), SOT (bit 7), HB (bit 1), PhT (bit 4), else Other
#[kani::proof]
#[kani::unwind(8)]
fn c19_rdh_trigger_label() {
    let t: u32 = kani::any();
    let s = trigger_type_string_from_int(t);
    let expect = if (t >> 9) & 1 == 1 { "SOC  " } else if (t >> 7) & 1 == 1 { "SOT  " } else if (t >> 1) & 1 == 1 { "HB   " } else if (t >> 4) & 1 == 1 { "PhT  " } else { "Other" };
    assert!(eq(&s, expect), "RDH trigger label");
    kani::cover!((t >> 9) & 1 == 1, "SOC");
    kani::cover!(t & 0x292 == 0x10, "PhT only");
    kani::cover!(t & 0x292 == 0, "other");
    core::mem::forget(s);
}

//@ harness: c19_rdh_lane_status_label props=C19 tier=quick class=functional covers=3 mem=8 timeout=600 est=20
//@ bounds: all 2^512 headers: the RDH lane-status label of the readout-frame views = worst of the detector-field status bits (bit 3 fatal, bit 2 error, bit 1 warning, bit 0 missing data)
#[kani::proof]
#[kani::unwind(8)]
fn c19_rdh_lane_status_label() {
    use alice_protocol_reader::prelude::{RdhCru, SerdeRdh};
    let b: [u8; 64] = kani::any();
    let rdh = RdhCru::from_buf(&b).unwrap();
    let df = (b[48] as u32) | (b[49] as u32) << 8 | (b[50] as u32) << 16 | (b[51] as u32) << 24;
    let s = rdh_detector_field_lane_status_as_string(&rdh);
    let expect = if df & 8 != 0 { "Fatal  " } else if df & 4 != 0 { "Error  " } else if df & 2 != 0 { "Warning" } else if df & 1 != 0 { "Missing" } else { "-      " };
    assert!(eq(&s, expect), "RDH lane status label");
    kani::cover!(df & 0xF == 8, "fatal only");
    kani::cover!(df & 0xF == 1, "missing data only");
    kani::cover!(df & 0xF == 0, "ok");
    core::mem::forget(s);
}
