//@ attach: fastpasta/src/analyze/validators/rdh.rs
//@ mod: verif_c10
// C10 K1 — RDH sanity == documented rules for all 2^512 headers; C20 (iii) configured RDH version.
#![allow(unused_imports, dead_code, clippy::all)]
use super::*;
use alice_protocol_reader::prelude::{RdhCru, SerdeRdh, RDH};

include!(concat!(env!("VERIF_ROOT"), "/oracle/rdh.rs"));

//@ harness: c10_sanity_default props=C10,C01,C02 tier=quick class=functional covers=4 mem=10 timeout=900 est=150
//@ bounds: two consecutive arbitrary 64-byte headers (2 x 2^512) through the default validator (no target): verdict == documented rules, Header ID relative to the first header seen
#[kani::proof]
#[kani::stub(alloc::fmt::format, crate::vsup::stub_format)]
#[kani::stub(core::fmt::write, crate::vsup::stub_write)]
fn c10_sanity_default() {
    let mut v = RdhCruSanityValidator::<RdhCru>::new();
    let b1: [u8; 64] = kani::any();
    let ok1 = v.sanity_check(&RdhCru::from_buf(&b1).unwrap()).is_ok();
    assert!(ok1 == ref_rdh_sane(&b1, b1[0], false), "RDH sanity verdict differs from the documented rules (first header)");
    let b2: [u8; 64] = kani::any();
    let ok2 = v.sanity_check(&RdhCru::from_buf(&b2).unwrap()).is_ok();
    assert!(ok2 == ref_rdh_sane(&b2, b1[0], false), "RDH sanity verdict differs from the documented rules (second header)");
    kani::cover!(ok1 && ok2, "both accepted");
    kani::cover!(ok1 && !ok2 && b2[0] != b1[0] && ref_rdh_sane(&b2, b2[0], false), "second rejected only for a changed Header ID");
    kani::cover!(!ok1 && ok2, "first rejected, second accepted");
    kani::cover!(ok1 && b1[5] != 0x20, "non-ITS system id accepted without ITS target");
}

//@ harness: c10_sanity_its props=C10,C01,C02 tier=quick class=functional covers=3 mem=10 timeout=900 est=100
//@ bounds: one arbitrary 64-byte header (2^512) through the ITS-specialised validator: additionally system_id == 0x20
#[kani::proof]
#[kani::stub(alloc::fmt::format, crate::vsup::stub_format)]
#[kani::stub(core::fmt::write, crate::vsup::stub_write)]
fn c10_sanity_its() {
    let mut v = RdhCruSanityValidator::<RdhCru>::with_specialization(SpecializeChecks::ITS);
    let b1: [u8; 64] = kani::any();
    let ok1 = v.sanity_check(&RdhCru::from_buf(&b1).unwrap()).is_ok();
    assert!(ok1 == ref_rdh_sane(&b1, b1[0], true), "ITS RDH sanity verdict differs from the documented rules");
    kani::cover!(ok1, "accepted");
    kani::cover!(!ok1 && ref_rdh_sane(&b1, b1[0], false), "rejected only for the system id");
    kani::cover!(!ok1 && b1[5] == 0x20, "rejected for another rule");
}

//@ harness: c10_sanity_cfg props=C10,C20,C01,C02 tier=quick class=functional covers=4 mem=10 timeout=900 est=120
//@ bounds: one arbitrary header x arbitrary configuration (check sanity|all, target none|its|its-stave, rdh_version None|Some(any u8)) through new_from_config: Header ID must equal the configured version; ITS system id iff a target is selected; nothing else changes
#[kani::proof]
#[kani::stub(alloc::fmt::format, crate::vsup::stub_format)]
#[kani::stub(core::fmt::write, crate::vsup::stub_write)]
fn c10_sanity_cfg() {
    let mode: u8 = kani::any();
    let target: u8 = kani::any();
    kani::assume(mode == 1 || mode == 2);
    kani::assume(target <= 2);
    let ver: Option<u8> = kani::any();
    unsafe {
        crate::vsup::VCFG_DYN.cfg = crate::vsup::VCfg { mode, target, rdh_version: ver, ..crate::vsup::VCFG0 };
    }
    let mut v = RdhCruSanityValidator::<RdhCru>::new_from_config(crate::vsup::vcfg_dyn());
    let b1: [u8; 64] = kani::any();
    let ok1 = v.sanity_check(&RdhCru::from_buf(&b1).unwrap()).is_ok();
    let expect_id = match ver {
        Some(x) => x,
        None => b1[0],
    };
    assert!(ok1 == ref_rdh_sane(&b1, expect_id, target != 0), "configured RDH sanity verdict differs");
    kani::cover!(ok1 && ver.is_some(), "accepted with configured version");
    kani::cover!(!ok1 && ver.is_some() && ref_rdh_sane(&b1, b1[0], target != 0), "rejected only for the configured version");
    kani::cover!(ok1 && ver.is_none() && target == 2, "accepted, its-stave, no custom checks");
    kani::cover!(!ok1 && target == 0 && ver.is_none(), "rejected, default");
}
