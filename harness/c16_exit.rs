//@ attach: fastpasta/src/config.rs
//@ mod: verif_c16
// C16 (i) exit status table, (ii) argument validation.
#![allow(unused_imports, dead_code, clippy::all)]
use super::*;
use crate::config::check::{CheckCommands, CheckModeArgs, System};
use crate::config::test_util::MockConfig;
use std::process::ExitCode;
use std::sync::atomic::AtomicBool;

fn cfg_with(exit_code: Option<u8>) -> Cfg {
    Cfg {
        file: None,
        cmd: None,
        verbosity: 0,
        max_tolerate_errors: 0,
        any_errors_exit_code: exit_code,
        filter_link: None,
        filter_fee: None,
        filter_its_stave: None,
        its_trigger_period: None,
        output: None,
        mute_errors: false,
        generate_checks_toml: false,
        checks_toml: None,
        stats_output: DataOutputMode::None,
        stats_output_format: None,
        input_stats_file: None,
        show_error_codes: Vec::new(),
        generate_completions: None,
        disable_styled_views: false,
    }
}

//@ harness: c16_exit_table props=C16,C01,C02 tier=quick class=functional covers=3 mem=6 timeout=300 est=15
//@ bounds: all processing codes (u8) x any-errors flag x configured any-errors exit code None|Some(any u8): util::lib::exit == documented table
#[kani::proof]
fn c16_exit_table() {
    let e: Option<u8> = kani::any();
    assert!(CONFIG.set(cfg_with(e)).is_ok());
    let code: u8 = kani::any();
    let flag: bool = kani::any();
    let f = AtomicBool::new(flag);
    let r = crate::util::lib::exit(code, &f);
    let expect = if code != 0 {
        ExitCode::from(code)
    } else if flag && e.is_some() {
        ExitCode::from(e.unwrap())
    } else {
        ExitCode::SUCCESS
    };
    assert!(r == expect, "exit status differs from the documented contract");
    kani::cover!(code == 0 && flag && e.is_some(), "any-errors status returned");
    kani::cover!(code == 0 && flag && e.is_none(), "errors but no configured status: 0");
    kani::cover!(code == 1, "processing failure");
}

//@ harness: c16_validate_args props=C16 tier=quick class=functional covers=4 mem=8 timeout=600 est=30
//@ bounds: check kind {none, sanity, all} x target {none, its, its-stave} x trigger period None|Some(any u16) x -E None|Some(any u8), no stats file: validate_args is Err iff a documented invalid combination
#[kani::proof]
#[kani::stub(alloc::fmt::format, crate::vsup::stub_format)]
fn c16_validate_args() {
    let mode: u8 = kani::any();
    let target: u8 = kani::any();
    kani::assume(mode <= 2 && target <= 2);
    let period: Option<u16> = kani::any();
    let ecode: Option<u8> = kani::any();
    let tgt = match target {
        1 => Some(System::ITS),
        2 => Some(System::ITS_Stave),
        _ => None,
    };
    let mut c = MockConfig::new();
    c.check = match mode {
        1 => Some(CheckCommands::Sanity(CheckModeArgs { target: tgt, ..Default::default() })),
        2 => Some(CheckCommands::All(CheckModeArgs { target: tgt, ..Default::default() })),
        _ => None,
    };
    c.its_trigger_period = period;
    c.exit_code_any_errors = ecode;
    let r = crate::config::lib::Config::validate_args(&c);
    let stave = mode != 0 && target == 2;
    let invalid = (mode == 1 && target == 2) // `check sanity its-stave`
        || (period.is_some() && !(mode == 2 && stave)) // trigger period only with `check all its-stave`
        || ecode == Some(0); // -E 0
    assert!(r.is_err() == invalid, "argument validation differs from the documented invalid combinations");
    kani::cover!(r.is_ok() && period.is_some(), "trigger period accepted with check all its-stave");
    kani::cover!(r.is_err() && mode == 1 && target == 2 && period.is_none() && ecode.is_none(), "check sanity its-stave rejected");
    kani::cover!(r.is_err() && ecode == Some(0) && period.is_none() && mode == 0, "-E 0 rejected");
    kani::cover!(r.is_ok() && mode == 0, "no check accepted");
    core::mem::forget(r);
    core::mem::forget(c);
}
