//@ attach: fastpasta/src/analyze/validators/its/alpide/alpide_readout_frame.rs
//@ mod: verif_c04l
// C04 item 5 / C13 K3 — lane-count and inner-grouping checks: no panic for any lane set / fatal set,
// verdict == documented rule.
#![allow(unused_imports, dead_code, clippy::all)]
use super::*;
use crate::words::its::lane_data_frame::LaneDataFrame;
use crate::words::its::Layer;

fn frame_with(ids: &[u8], n: usize, layer: Layer) -> AlpideReadoutFrame {
    let mut f = AlpideReadoutFrame::new(0x100);
    let mut i = 0;
    while i < 3 {
        if i < n {
            f.lane_data_frames.push(LaneDataFrame::new(ids[i], Vec::new()));
        }
        i += 1;
    }
    f.from_layer = Some(layer);
    f.close_frame(0x200);
    f
}

fn sorted3(a: u8, b: u8, c: u8) -> (u8, u8, u8) {
    let (mut x, mut y, mut z) = (a, b, c);
    if x > y { core::mem::swap(&mut x, &mut y); }
    if y > z { core::mem::swap(&mut y, &mut z); }
    if x > y { core::mem::swap(&mut x, &mut y); }
    (x, y, z)
}

//@ harness: c04_inner_groupings props=C04,C13 tier=quick class=crash covers=3 mem=12 timeout=1200 est=120
//@ bounds: inner-barrel frame with 3 lanes of ARBITRARY data-word ids (distinct), no fatal lanes: accepted iff the lane numbers (id & 0x1F) are {0,1,2}, {3,4,5} or {6,7,8}; never panics
#[kani::proof]
#[kani::unwind(6)]
#[kani::stub(alloc::fmt::format, crate::vsup::stub_format)]
#[kani::stub(core::fmt::write, crate::vsup::stub_write)]
fn c04_inner_groupings() {
    let ids: [u8; 3] = kani::any();
    kani::assume(ids[0] != ids[1] && ids[1] != ids[2] && ids[0] != ids[2]);
    let f = frame_with(&ids, 3, Layer::Inner);
    let r = f.check_frame_lanes_valid(None);
    let (a, b, c) = sorted3(ids[0] & 0x1F, ids[1] & 0x1F, ids[2] & 0x1F);
    let grouped = (a, b, c) == (0, 1, 2) || (a, b, c) == (3, 4, 5) || (a, b, c) == (6, 7, 8);
    assert!(r.is_ok() == grouped, "inner-barrel lane grouping verdict differs from the documented groups");
    kani::cover!(grouped && ids[0] == 0x28, "group 6,7,8 in any order");
    kani::cover!(!grouped && a == 0 && b == 1 && c == 3, "0,1,3 rejected");
    kani::cover!(!grouped && c > 8, "lane number above 8");
    core::mem::forget(r);
    core::mem::forget(f);
}

//@ harness: c04_inner_fatal props=C04,C13 tier=quick class=crash covers=3 mem=12 timeout=1200 est=150
//@ bounds: inner-barrel frame with 2 lanes of arbitrary ids and ONE known-fatal lane with an ARBITRARY lane number (0..=255): never panics; accepted iff the two lanes plus the fatal lane form a documented group
#[kani::proof]
#[kani::unwind(6)]
#[kani::stub(alloc::fmt::format, crate::vsup::stub_format)]
#[kani::stub(core::fmt::write, crate::vsup::stub_write)]
fn c04_inner_fatal() {
    let ids: [u8; 3] = kani::any();
    kani::assume(ids[0] != ids[1]);
    let fatal: u8 = kani::any();
    let f = frame_with(&ids, 2, Layer::Inner);
    let fl = [fatal];
    let r = f.check_frame_lanes_valid(Some(&fl));
    let (l0, l1) = (ids[0] & 0x1F, ids[1] & 0x1F);
    let (a, b, c) = sorted3(l0, l1, fatal);
    let grouped = fatal <= 8 && l0 != fatal && l1 != fatal && ((a, b, c) == (0, 1, 2) || (a, b, c) == (3, 4, 5) || (a, b, c) == (6, 7, 8));
    assert!(r.is_ok() == grouped, "inner-barrel grouping with a fatal lane: verdict differs");
    kani::cover!(grouped, "two lanes + their fatal partner accepted");
    kani::cover!(fatal > 8, "fatal lane number above 8 (invalid IB-class id carried a fatal APE)");
    kani::cover!(!grouped && fatal <= 8, "rejected");
    core::mem::forget(r);
    core::mem::forget(f);
}

fn lane_count(k: usize, n: usize, outer: bool) {
    let ids: [u8; 3] = [0x40, 0x41, 0x42];
    let f = frame_with(&ids, n, if outer { Layer::Outer } else { Layer::Middle });
    let fl = [0u8, 1, 2, 3, 4, 5, 6, 7, 8, 9, 10, 11, 12, 13, 14, 15];
    let r = f.check_frame_lanes_valid(if k == 0 { None } else { Some(&fl[..k]) });
    let expect: usize = if outer { 14 } else { 8 };
    // more known-fatal lanes than lanes exist cannot be "valid" unless no lane is left at all
    let ok = if k <= expect { n == expect - k } else { n == 0 };
    assert!(r.is_ok() == ok, "lane count verdict differs from (documented count - fatal lanes)");
    core::mem::forget(r);
    core::mem::forget(f);
}

//@ harness: c04_lane_count props=C04,C13 tier=quick class=crash covers=1 mem=12 timeout=900 est=60
//@ bounds: middle/outer frames, concrete points of (known-fatal lanes k, lanes present n): (5,3) (6,3) middle accepted/rejected, (9,0) (9,3) middle with more fatal lanes than the barrel has, (11,3) (16,0) (16,2) outer: verdict == (n == documented count - k, saturating), never panics or underflows
#[kani::proof]
#[kani::unwind(6)]
#[kani::stub(alloc::fmt::format, crate::vsup::stub_format)]
#[kani::stub(core::fmt::write, crate::vsup::stub_write)]
fn c04_lane_count() {
    lane_count(5, 3, false);
    lane_count(6, 3, false);
    lane_count(9, 0, false);
    lane_count(9, 3, false);
    lane_count(11, 3, true);
    lane_count(16, 0, true);
    lane_count(16, 2, true);
    kani::cover!(true, "reached");
}

//@ harness: c13_store_lane_data props=C13 tier=quick class=functional covers=1 mem=16 timeout=900 est=120
//@ bounds: two data words with the same id 0x25 and ARBITRARY data bytes stored into a frame: one lane holding the 9 data bytes of word 0 followed by the 9 data bytes of word 1 (the identifier byte is never stored)
#[kani::proof]
#[kani::unwind(11)]
fn c13_store_lane_data() {
    let mut w0: [u8; 10] = kani::any();
    let mut w1: [u8; 10] = kani::any();
    w0[9] = 0x25;
    w1[9] = 0x25;
    let mut f = AlpideReadoutFrame::new(0x100);
    f.store_lane_data(&w0, Layer::Inner);
    f.store_lane_data(&w1, Layer::Inner);
    let l = f.lane_data_frames_as_slice();
    assert!(l.len() == 1 && l[0].id() == 0x25, "lane data of one identifier split over several lanes");
    let a = l[0].data();
    assert!(a.len() == 18, "a lane does not hold exactly 9 bytes per data word");
    let mut i = 0;
    while i < 9 {
        assert!(a[i] == w0[i] && a[9 + i] == w1[i], "lane data altered or misplaced");
        i += 1;
    }
    kani::cover!(a[17] == 0xB0, "arbitrary data");
    core::mem::forget(f);
}
