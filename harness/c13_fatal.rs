//@ attach: fastpasta/src/analyze/validators/its/cdp_running/readout_frame.rs
//@ mod: verif_c13f
// C13 — "fewer lanes only by lanes that announced a fatal state": the set of known-fatal lanes
// accumulates over frames.
#![allow(unused_imports, dead_code, clippy::all)]
use super::*;

//@ harness: c13_fatal_lanes_accumulate props=C13 tier=quick class=functional covers=1 mem=8 timeout=600 est=30
//@ bounds: two successive announcements of one fatal lane each (arbitrary lane numbers): afterwards both lanes are known as fatal, in order
#[kani::proof]
#[kani::unwind(4)]
fn c13_fatal_lanes_accumulate() {
    let mut v = ItsReadoutFrameValidator::new(&crate::vsup::VCFG_ALL_STAVE);
    assert!(v.fatal_lanes().is_none());
    let (a, b): (u8, u8) = (kani::any(), kani::any());
    v.add_fatal_lanes(vec![a]);
    assert!(v.fatal_lanes().unwrap().len() == 1 && v.fatal_lanes().unwrap()[0] == a);
    v.add_fatal_lanes(vec![b]);
    let f = v.fatal_lanes().unwrap();
    assert!(f.len() == 2 && f[0] == a && f[1] == b, "a lane that announced a fatal state in a later frame is forgotten");
    kani::cover!(a != b, "two different lanes");
    core::mem::forget(v);
}
