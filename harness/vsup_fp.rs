// crate::vsup for the `fastpasta` crate (scratch copy only). See vsup.rs.
#![allow(dead_code, static_mut_refs, unused_imports, unused_variables, clippy::all)]
include!("vsup.rs");

use crate::stats::StatType;

#[cfg(not(feature = "verif_native"))]
pub fn classify<T>(m: &T) {
    if core::mem::size_of::<T>() == core::mem::size_of::<StatType>()
        && core::any::type_name::<T>().len() == core::any::type_name::<StatType>().len()
    {
        let st: &StatType = unsafe { &*(m as *const T as *const StatType) };
        match st {
            StatType::Error(_) => record_error_from_formats(),
            StatType::Fatal(_) => unsafe { ST.n_fatal += 1 },
            _ => {}
        }
    }
}

/// stub for `crate::analyze::validators::its::util::report_error` (same signature)
#[cfg(not(feature = "verif_native"))]
pub fn stub_report_error_fp(mem_pos: u64, err: &str, word_slice: &[u8], sender: &flume::Sender<StatType>) {
    stub_report_error(mem_pos, err, word_slice, sender)
}

/// Everything the code under test sent on `rx`'s channel since `reset()`.
#[cfg(not(feature = "verif_native"))]
pub fn observe(_rx: &flume::Receiver<StatType>) -> Obs {
    snapshot()
}

#[cfg(feature = "verif_native")]
pub fn observe(rx: &flume::Receiver<StatType>) -> Obs {
    let mut o = Obs { n_send: 0, n_err: 0, n_fatal: 0, reps: [NOREP; MAXREP] };
    for m in rx.try_iter() {
        o.n_send += 1;
        match m {
            StatType::Error(s) => {
                if o.n_err < MAXREP {
                    o.reps[o.n_err] = parse_msg(&s);
                }
                o.n_err += 1;
            }
            StatType::Fatal(_) => o.n_fatal += 1,
            _ => {}
        }
    }
    o
}

/// The three stubs every fastpasta harness needs, as one macro would be nicer, but kani::stub
/// attributes must be written on the harness itself; harness files copy these four lines:
///   #[kani::stub(alloc::fmt::format, crate::vsup::stub_format)]
///   #[kani::stub(core::fmt::write, crate::vsup::stub_write)]
///   #[kani::stub(flume::Sender::send, crate::vsup::stub_send)]
///   #[kani::stub(crate::analyze::validators::its::util::report_error, crate::vsup::stub_report_error_fp)]
pub const _DOC: () = ();

// ---- self tests of the format-template reader (run by every check as `required`) ----------
#[cfg(not(feature = "verif_native"))]
#[kani::proof]
fn vsup_selftest_peek() {
    let x: u64 = kani::any();
    let y: u16 = kani::any();
    let r = peek(&format_args!("{x:#X}: [E59] TDT with {y}"));
    assert!(r.has_lead && r.lead == x);
    assert!(r.nlit == 8 && &r.lit == b": [E59] ");
    let e = "abc";
    let r = peek(&format_args!("{x:#X}: {e}"));
    assert!(r.has_lead && r.lead == x && r.nlit == 2);
    let r = peek(&format_args!("[E40] {e}"));
    assert!(!r.has_lead && r.nlit == 6 && &r.lit[..6] == b"[E40] ");
    let r = peek(&format_args!("[E42] TDH continuation is not 0"));
    assert!(!r.has_lead && r.nlit == 8 && &r.lit == b"[E42] TD");
    let r = peek(&format_args!("{y} and {x}"));
    assert!(!r.has_lead);
    let r = peek(&format_args!("{e}: [E10] x {y}"));
    assert!(!r.has_lead);
    let r = peek(&format_args!("{x:#X}: [E59] TDT with packet done marked the end of a readout frame, but a start of readout frame was never seen (TDH with continuation = 0) -- a literal piece longer than 127 bytes"));
    assert!(r.has_lead && r.lead == x && r.nlit == 8 && &r.lit == b": [E59] ");
    let r = peek(&format_args!("{x:#x}: [E100] lower-case hex is not the documented position format {y}"));
    assert!(!r.has_lead);
}

// ---- a minimal configuration object for harnesses ------------------------------------------
use crate::config::check::{CheckCommands, CheckModeArgs, ChecksOpt, System};
use crate::config::custom_checks::{custom_checks_cfg::CustomChecks, CustomChecksOpt};
use crate::config::util::UtilOpt;
use alice_protocol_reader::prelude::FilterOpt;

/// Plain-data stand-in for `Cfg` (which holds PathBufs, Vecs and a parsed TOML): implements the
/// option traits the validators are generic over. No clap, no files.
#[derive(Clone, Copy)]
pub struct VCfg {
    /// 0 = no check, 1 = `check sanity`, 2 = `check all`
    pub mode: u8,
    /// 0 = no target, 1 = `its`, 2 = `its-stave`
    pub target: u8,
    pub trigger_period: Option<u16>,
    pub mute: bool,
    pub rdh_version: Option<u8>,
    pub cdps: Option<u32>,
    pub pht: Option<u32>,
    pub chip_count_ob: Option<u8>,
    pub skip_payload: bool,
    pub filter_link: Option<u8>,
    pub filter_fee: Option<u16>,
    pub filter_stave: Option<u16>,
    pub exit_code: Option<u8>,
}

pub const VCFG0: VCfg = VCfg {
    mode: 0, target: 0, trigger_period: None, mute: false, rdh_version: None, cdps: None, pht: None,
    chip_count_ob: None, skip_payload: false, filter_link: None, filter_fee: None, filter_stave: None,
    exit_code: None,
};
pub static VCFG_SANITY: VCfg = VCfg { mode: 1, ..VCFG0 };
pub static VCFG_ALL: VCfg = VCfg { mode: 2, ..VCFG0 };
pub static VCFG_SANITY_ITS: VCfg = VCfg { mode: 1, target: 1, ..VCFG0 };
pub static VCFG_ALL_ITS: VCfg = VCfg { mode: 2, target: 1, ..VCFG0 };
pub static VCFG_ALL_STAVE: VCfg = VCfg { mode: 2, target: 2, ..VCFG0 };
/// for harnesses that need symbolic option values: set it first, then take `vcfg_dyn()`
pub struct VCfgDyn {
    magic: u64,
    pub cfg: VCfg,
}
/// unique initial bytes: see the note at `VState` in vsup.rs
pub static mut VCFG_DYN: VCfgDyn = VCfgDyn { magic: 0x5645_5249_465F_4346, cfg: VCFG0 };
pub fn set_vcfg_dyn(c: VCfg) {
    unsafe {
        VCFG_DYN.cfg = c;
    }
}
pub fn vcfg_dyn() -> &'static VCfg {
    unsafe { &*core::ptr::addr_of!(VCFG_DYN.cfg) }
}

impl ChecksOpt for VCfg {
    fn check(&self) -> Option<CheckCommands> {
        let target = match self.target {
            1 => Some(System::ITS),
            2 => Some(System::ITS_Stave),
            _ => None,
        };
        let args = CheckModeArgs { target, ..Default::default() };
        match self.mode {
            1 => Some(CheckCommands::Sanity(args)),
            2 => Some(CheckCommands::All(args)),
            _ => None,
        }
    }
    fn check_its_trigger_period(&self) -> Option<u16> {
        self.trigger_period
    }
}
impl FilterOpt for VCfg {
    fn skip_payload(&self) -> bool {
        self.skip_payload
    }
    fn filter_link(&self) -> Option<u8> {
        self.filter_link
    }
    fn filter_fee(&self) -> Option<u16> {
        self.filter_fee
    }
    fn filter_its_stave(&self) -> Option<u16> {
        self.filter_stave
    }
}
impl CustomChecksOpt for VCfg {
    fn custom_checks(&'static self) -> Option<&'static CustomChecks> {
        None
    }
    fn custom_checks_enabled(&'static self) -> bool {
        self.rdh_version.is_some() || self.cdps.is_some() || self.pht.is_some() || self.chip_count_ob.is_some()
    }
    fn generate_custom_checks_toml_enabled(&self) -> bool {
        false
    }
    fn cdps(&'static self) -> Option<u32> {
        self.cdps
    }
    fn triggers_pht(&'static self) -> Option<u32> {
        self.pht
    }
    fn rdh_version(&'static self) -> Option<u8> {
        self.rdh_version
    }
    fn chip_orders_ob(&'static self) -> Option<&[Vec<u8>]> {
        None
    }
    fn chip_count_ob(&'static self) -> Option<u8> {
        self.chip_count_ob
    }
}
impl UtilOpt for VCfg {
    fn verbosity(&self) -> u8 {
        0
    }
    fn max_tolerate_errors(&self) -> u32 {
        0
    }
    fn any_errors_exit_code(&self) -> Option<u8> {
        self.exit_code
    }
    fn mute_errors(&self) -> bool {
        self.mute
    }
    fn error_code_filter(&self) -> Option<&[String]> {
        None
    }
    fn disable_styled_views(&self) -> bool {
        true
    }
}
