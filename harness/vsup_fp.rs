// crate::vsup for the `fastpasta` crate (scratch copy only). See vsup.rs.
#![allow(dead_code, static_mut_refs, unused_imports, unused_variables, clippy::all)]
include!("vsup.rs");

use crate::stats::StatType;

#[cfg(not(feature = "verif_native"))]
pub fn classify<T>(m: &T) {
    if core::mem::size_of::<T>() == core::mem::size_of::<StatType>()
        && core::any::type_name::<T>().len() == core::any::type_name::<StatType>().len()
    {
        let st: &StatType = unsafe { &*(m as *const T as *const StatType) };
        match st {
            StatType::Error(_) => record_error_from_formats(),
            StatType::Fatal(_) => unsafe { N_FATAL += 1 },
            _ => {}
        }
    }
}

/// stub for `crate::analyze::validators::its::util::report_error` (same signature)
#[cfg(not(feature = "verif_native"))]
pub fn stub_report_error_fp(mem_pos: u64, err: &str, word_slice: &[u8], sender: &flume::Sender<StatType>) {
    stub_report_error(mem_pos, err, word_slice, sender)
}

/// Everything the code under test sent on `rx`'s channel since `reset()`.
#[cfg(not(feature = "verif_native"))]
pub fn observe(_rx: &flume::Receiver<StatType>) -> Obs {
    snapshot()
}

#[cfg(feature = "verif_native")]
pub fn observe(rx: &flume::Receiver<StatType>) -> Obs {
    let mut o = Obs { n_send: 0, n_err: 0, n_fatal: 0, reps: [NOREP; MAXREP] };
    for m in rx.try_iter() {
        o.n_send += 1;
        match m {
            StatType::Error(s) => {
                if o.n_err < MAXREP {
                    o.reps[o.n_err] = parse_msg(&s);
                }
                o.n_err += 1;
            }
            StatType::Fatal(_) => o.n_fatal += 1,
            _ => {}
        }
    }
    o
}

/// The three stubs every fastpasta harness needs, as one macro would be nicer, but kani::stub
/// attributes must be written on the harness itself; harness files copy these four lines:
///   #[kani::stub(alloc::fmt::format, crate::vsup::stub_format)]
///   #[kani::stub(core::fmt::write, crate::vsup::stub_write)]
///   #[kani::stub(flume::Sender::send, crate::vsup::stub_send)]
///   #[kani::stub(crate::analyze::validators::its::util::report_error, crate::vsup::stub_report_error_fp)]
pub const _DOC: () = ();

// ---- self tests of the format-template reader (run by every check as `required`) ----------
#[cfg(not(feature = "verif_native"))]
#[kani::proof]
fn vsup_selftest_peek() {
    let x: u64 = kani::any();
    let y: u16 = kani::any();
    let r = peek(&format_args!("{x:#X}: [E59] TDT with {y}"));
    assert!(r.has_lead && r.lead == x);
    assert!(r.nlit == 8 && &r.lit == b": [E59] ");
    let e = "abc";
    let r = peek(&format_args!("{x:#X}: {e}"));
    assert!(r.has_lead && r.lead == x && r.nlit == 2);
    let r = peek(&format_args!("[E40] {e}"));
    assert!(!r.has_lead && r.nlit == 6 && &r.lit[..6] == b"[E40] ");
    let r = peek(&format_args!("[E42] TDH continuation is not 0"));
    assert!(!r.has_lead && r.nlit == 8 && &r.lit == b"[E42] TD");
    let r = peek(&format_args!("{y} and {x}"));
    assert!(!r.has_lead);
    let r = peek(&format_args!("{e}: [E10] x {y}"));
    assert!(!r.has_lead);
}
