// crate::vsup for the `alice_protocol_reader` crate (scratch copy only). See vsup.rs.
#![allow(dead_code, static_mut_refs, unused_imports, unused_variables, clippy::all)]
include!("vsup.rs");

use crate::bufreader_wrapper::BufferedReaderWrapper;
use crate::config::filter::FilterOpt;
use crate::stats::InputStatType;
use std::io;

pub const MAXMSG: usize = 12;
/// compact copy of an InputStatType message: (kind, value)
/// kind: 0 Fatal, 1 Error, 2 RunTriggerType, 3 DataFormat, 4 LinksObserved, 5 FeeId, 6 RDHSeen,
///       7 RDHFiltered, 8 PayloadSize, 9 SystemId
#[derive(Clone, Copy, PartialEq, Eq, Debug)]
pub struct Msg {
    pub kind: u8,
    pub val: u32,
}
pub const NOMSG: Msg = Msg { kind: 255, val: 0 };

pub fn compact(m: &InputStatType) -> Msg {
    match m {
        InputStatType::Fatal(_) => Msg { kind: 0, val: 0 },
        InputStatType::Error(_) => Msg { kind: 1, val: 0 },
        InputStatType::RunTriggerType(v) => Msg { kind: 2, val: *v },
        InputStatType::DataFormat(v) => Msg { kind: 3, val: *v as u32 },
        InputStatType::LinksObserved(v) => Msg { kind: 4, val: *v as u32 },
        InputStatType::FeeId(v) => Msg { kind: 5, val: *v as u32 },
        InputStatType::RDHSeen(v) => Msg { kind: 6, val: *v },
        InputStatType::RDHFiltered(v) => Msg { kind: 7, val: *v },
        InputStatType::PayloadSize(v) => Msg { kind: 8, val: *v },
        InputStatType::SystemId(v) => Msg { kind: 9, val: *v as u32 },
    }
}

macro_rules! unroll12 {
    ($i:ident, $body:block) => {{
        { let $i: usize = 0; $body } { let $i: usize = 1; $body } { let $i: usize = 2; $body }
        { let $i: usize = 3; $body } { let $i: usize = 4; $body } { let $i: usize = 5; $body }
        { let $i: usize = 6; $body } { let $i: usize = 7; $body } { let $i: usize = 8; $body }
        { let $i: usize = 9; $body } { let $i: usize = 10; $body } { let $i: usize = 11; $body }
    }};
}
pub(crate) use unroll12;

#[derive(Clone, Copy)]
pub struct MsgLog {
    pub n: usize,
    pub msgs: [Msg; MAXMSG],
}
impl MsgLog {
    /// number of messages of `kind`
    pub fn count(&self, kind: u8) -> usize {
        let mut c = 0;
        unroll12!(i, {
            if i < self.n && self.msgs[i].kind == kind {
                c += 1;
            }
        });
        c
    }
    /// value of the k-th (0-based) message of `kind`
    pub fn nth(&self, kind: u8, k: usize) -> Option<u32> {
        let mut c = 0;
        let mut r = None;
        unroll12!(i, {
            if i < self.n && self.msgs[i].kind == kind {
                if c == k {
                    r = Some(self.msgs[i].val);
                }
                c += 1;
            }
        });
        r
    }
    /// sum of the values of all messages of `kind`
    pub fn sum(&self, kind: u8) -> u64 {
        let mut s = 0u64;
        unroll12!(i, {
            if i < self.n && self.msgs[i].kind == kind {
                s += self.msgs[i].val as u64;
            }
        });
        s
    }
}


#[cfg(not(feature = "verif_native"))]
pub struct MsgState {
    magic: u64,
    pub log: MsgLog,
}
/// unique initial bytes: see the note at `VState` in vsup.rs
#[cfg(not(feature = "verif_native"))]
pub static mut MSGS: MsgState = MsgState { magic: 0x5645_5249_465F_4D53, log: MsgLog { n: 0, msgs: [NOMSG; MAXMSG] } };

#[cfg(not(feature = "verif_native"))]
pub fn classify<T>(m: &T) {
    if core::mem::size_of::<T>() == core::mem::size_of::<InputStatType>()
        && core::any::type_name::<T>().len() == core::any::type_name::<InputStatType>().len()
    {
        let st: &InputStatType = unsafe { &*(m as *const T as *const InputStatType) };
        unsafe {
            if MSGS.log.n < MAXMSG {
                MSGS.log.msgs[MSGS.log.n] = compact(st);
            }
            MSGS.log.n += 1;
        }
        match st {
            InputStatType::Error(_) => record_error_from_formats(),
            InputStatType::Fatal(_) => unsafe { ST.n_fatal += 1 },
            _ => {}
        }
    }
}

#[cfg(not(feature = "verif_native"))]
pub fn reset_msgs() {
    unsafe {
        MSGS.log.n = 0;
        MSGS.log.msgs = [NOMSG; MAXMSG];
    }
    reset();
}
#[cfg(feature = "verif_native")]
pub fn reset_msgs() {}

/// Everything sent on the channel since reset_msgs(): (error/fatal observation, message log)
#[cfg(not(feature = "verif_native"))]
pub fn observe(_rx: &flume::Receiver<InputStatType>) -> (Obs, MsgLog) {
    (snapshot(), unsafe { MSGS.log })
}

#[cfg(feature = "verif_native")]
pub fn observe(rx: &flume::Receiver<InputStatType>) -> (Obs, MsgLog) {
    let mut o = Obs { n_send: 0, n_err: 0, n_fatal: 0, reps: [NOREP; MAXREP] };
    let mut l = MsgLog { n: 0, msgs: [NOMSG; MAXMSG] };
    for m in rx.try_iter() {
        o.n_send += 1;
        if l.n < MAXMSG {
            l.msgs[l.n] = compact(&m);
        }
        l.n += 1;
        match m {
            InputStatType::Error(s) => {
                if o.n_err < MAXREP {
                    o.reps[o.n_err] = parse_msg(&s);
                }
                o.n_err += 1;
            }
            InputStatType::Fatal(_) => o.n_fatal += 1,
            _ => {}
        }
    }
    (o, l)
}

// ---- in-memory input ------------------------------------------------------------------------
/// A byte source of `len` valid bytes. File-like: a relative seek just moves the position (also
/// past the end, like BufReader<File>::seek_relative). Pipe-like (stdin): a "seek" reads and
/// discards `offset` bytes and fails with InvalidInput when the input ends first
/// (StdInReaderSeeker::seek_relative_offset).
pub struct MemReader<const N: usize> {
    pub data: [u8; N],
    pub len: usize,
    pub pos: usize,
    pub pipe: bool,
}
impl<const N: usize> io::Read for MemReader<N> {
    fn read(&mut self, buf: &mut [u8]) -> io::Result<usize> {
        let avail = if self.pos < self.len { self.len - self.pos } else { 0 };
        let n = if buf.len() < avail { buf.len() } else { avail };
        buf[..n].copy_from_slice(&self.data[self.pos..self.pos + n]);
        self.pos += n;
        Ok(n)
    }
    fn read_exact(&mut self, buf: &mut [u8]) -> io::Result<()> {
        let n = buf.len();
        if self.pos > self.len || self.len - self.pos < n {
            // like the default read_exact on a short source: consumes what is there, then fails
            self.pos = self.len;
            return Err(io::Error::from(io::ErrorKind::UnexpectedEof));
        }
        buf.copy_from_slice(&self.data[self.pos..self.pos + n]);
        self.pos += n;
        Ok(())
    }
}
impl<const N: usize> io::Seek for MemReader<N> {
    fn seek(&mut self, _pos: io::SeekFrom) -> io::Result<u64> {
        Err(io::Error::from(io::ErrorKind::Unsupported))
    }
}
impl<const N: usize> BufferedReaderWrapper for MemReader<N> {
    fn seek_relative_offset(&mut self, offset: i64) -> io::Result<()> {
        if offset < 0 {
            return Err(io::Error::from(io::ErrorKind::InvalidInput));
        }
        let off = offset as usize;
        if self.pipe {
            if self.pos > self.len || self.len - self.pos < off {
                self.pos = self.len;
                return Err(io::Error::from(io::ErrorKind::InvalidInput));
            }
        }
        self.pos += off;
        Ok(())
    }
}

#[derive(Clone, Copy)]
pub struct VFilter {
    pub skip_payload: bool,
    pub link: Option<u8>,
    pub fee: Option<u16>,
    pub stave: Option<u16>,
}
impl FilterOpt for VFilter {
    fn skip_payload(&self) -> bool {
        self.skip_payload
    }
    fn filter_link(&self) -> Option<u8> {
        self.link
    }
    fn filter_fee(&self) -> Option<u16> {
        self.fee
    }
    fn filter_its_stave(&self) -> Option<u16> {
        self.stave
    }
}

#[cfg(not(feature = "verif_native"))]
#[kani::proof]
fn vsup_selftest_peek_apr() {
    let x: u64 = kani::any();
    let sz: u16 = kani::any();
    let e = "abc";
    let r = peek(&format_args!("{x:#X}: [E100] Failed to read payload of size {sz}: {e}"));
    assert!(r.has_lead && r.lead == x && r.nlit == 8 && &r.lit == b": [E100]");
}
