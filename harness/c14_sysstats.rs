//@ attach: fastpasta/src/stats.rs
//@ mod: verif_c14s
// C14 — per-packet statistics of the analysed path: layer/stave pair and system id.
#![allow(unused_imports, dead_code, static_mut_refs, clippy::all)]
use super::*;
use alice_protocol_reader::prelude::{RdhCru, SerdeRdh, RDH};

struct LsState {
    magic: u64,
    layer: u8,
    stave: u8,
    n_ls: usize,
    n_other: usize,
}
/// one static with unique initial bytes: see the note at `VState` in vsup.rs
static mut LS: LsState = LsState { magic: 0x5645_5249_465F_4C53, layer: 0xFF, stave: 0xFF, n_ls: 0, n_other: 0 };

/// observing stub for flume::Sender::<StatType>::send (Kani mode only)
fn obs_send<T>(_s: &flume::Sender<T>, m: T) -> Result<(), flume::SendError<T>> {
    if core::mem::size_of::<T>() == core::mem::size_of::<StatType>() {
        let st: &StatType = unsafe { &*(&m as *const T as *const StatType) };
        unsafe {
            match st {
                StatType::LayerStaveSeen { layer, stave } => {
                    LS.layer = *layer;
                    LS.stave = *stave;
                    LS.n_ls += 1;
                }
                _ => LS.n_other += 1,
            }
        }
    }
    core::mem::forget(m);
    Ok(())
}

//@ harness: c14_layer_stave props=C14 tier=quick class=functional covers=3 mem=8 timeout=600 est=40
//@ bounds: all 2^512 headers, system id not yet determined or already ITS: collect_system_specific_stats sends exactly one LayerStaveSeen{layer = FEE-ID bits 14:12, stave = bits 5:0} for ITS data, nothing for other known systems, Err for an unknown first system id; the first recognised system id is remembered
#[kani::proof]
#[kani::unwind(3)]
#[kani::stub(alloc::fmt::format, crate::vsup::stub_format)]
#[kani::stub(flume::Sender::send, obs_send)]
fn c14_layer_stave() {
    let b: [u8; 64] = kani::any();
    let rdh = RdhCru::from_buf(&b).unwrap();
    let (tx, rx) = flume::unbounded();
    let known_its: bool = kani::any();
    let mut sid: Option<SystemId> = if known_its { Some(SystemId::ITS) } else { None };
    let r = collect_system_specific_stats(&rdh, &mut sid, &tx);
    let fee = (b[2] as u16) | (b[3] as u16) << 8;
    let sys = b[5];
    let recognised = matches!(sys, 3..=8 | 10 | 15 | 17..=19 | 32..=39 | 255);
    #[cfg(not(feature = "verif_native"))]
    let (n_ls, n_other, layer, stave) = unsafe { (LS.n_ls, LS.n_other, LS.layer, LS.stave) };
    #[cfg(feature = "verif_native")]
    let (n_ls, n_other, layer, stave) = {
        let mut t = (0usize, 0usize, 0xFFu8, 0xFFu8);
        for m in rx.try_iter() {
            match m {
                StatType::LayerStaveSeen { layer, stave } => {
                    t.0 += 1;
                    t.2 = layer;
                    t.3 = stave;
                }
                _ => t.1 += 1,
            }
        }
        t
    };
    if known_its || sys == 32 {
        assert!(r.is_ok() && n_ls == 1 && n_other == 0, "ITS packet must yield exactly one layer/stave statistic");
        assert!(layer == ((fee >> 12) & 7) as u8 && stave == (fee & 0x3F) as u8, "layer/stave statistic differs from the FEE ID fields");
        assert!(sid == Some(SystemId::ITS));
    } else if recognised {
        assert!(r.is_ok() && n_ls == 0 && n_other == 0, "non-ITS system must not yield ITS statistics");
        assert!(sid.is_some() && sid != Some(SystemId::ITS));
    } else {
        assert!(r.is_err() && n_ls == 0 && sid.is_none(), "unknown first system id must be an error");
    }
    kani::cover!(known_its && sys != 32, "system id already known as ITS");
    kani::cover!(!known_its && recognised && sys != 32, "other system");
    kani::cover!(!known_its && !recognised, "unknown system id");
    core::mem::forget((r, tx, rx));
}
