//@ attach: fastpasta/src/write/writer.rs
//@ mod: verif_c08
// C08 (iii) — what the filtered-output writer hands to its sink is rdh0|payload0|rdh1|payload1...
// No loop over the 64 header bytes (words compared with an unrolled macro) so that the unwind bound can stay
// at 4: with unwind 66 the slice drop glue of vec::IntoIter<(RdhCru, Vec<u8>, u64)> was unrolled 3328 times and
// the harness exhausted 16 GB.
#![allow(unused_imports, dead_code, static_mut_refs, clippy::all)]
use super::*;
use alice_protocol_reader::cdp_wrapper::cdp_array::CdpArray;
use alice_protocol_reader::prelude::{RdhCru, SerdeRdh, RDH};

const CAPN: usize = 160;
struct SinkC {
    magic: u64,
    len: usize,
    n_writes: usize,
}
/// statics with unique initial bytes: see the note at `VState` in vsup.rs (a plain
/// `static mut N_WRITES: usize = 0` was picked by Kani as the backing store of `RawVec`'s `Cap::ZERO`).
/// The byte sink is a static of its own (inside a struct every write was a whole-struct update: 7x the formula);
/// its initial bytes are a pattern no constant has.
static mut SINK: SinkC = SinkC { magic: 0x5645_5249_465F_534B, len: 0, n_writes: 0 };
const fn sink_init() -> [u8; CAPN] {
    let mut a = [0xEEu8; CAPN];
    a[0] = 0x56;
    a[1] = 0x45;
    a[2] = 0x52;
    a[3] = 0x49;
    a[4] = 0x46;
    a[5] = 0x5F;
    a[6] = 0x4F;
    a[7] = 0x55;
    a
}
static mut SINK_OUT: [u8; CAPN] = sink_init();

/// stub for `<std::io::Stdout as std::io::Write>::write_all` (the sink used when no file is configured)
fn sink_write_all(_s: &mut std::io::Stdout, buf: &[u8]) -> std::io::Result<()> {
    unsafe {
        let n = buf.len();
        assert!(SINK.len + n <= CAPN);
        SINK_OUT[SINK.len..SINK.len + n].copy_from_slice(buf);
        SINK.len += n;
        SINK.n_writes += 1;
    }
    Ok(())
}

/// stub for `std::io::stdout`: the handle is never used (write_all is stubbed); building the real one
/// initialises a OnceLock/ReentrantLock, which is not the subject
fn sink_stdout() -> std::io::Stdout {
    static DUMMY: u64 = 0;
    // Stdout is one &'static to its lock; any non-null aligned address will do, it is never dereferenced
    unsafe { core::mem::transmute::<&'static u64, std::io::Stdout>(&DUMMY) }
}

#[inline(always)]
fn w64(a: &[u8], i: usize) -> u64 {
    u64::from_le_bytes([a[i], a[i + 1], a[i + 2], a[i + 3], a[i + 4], a[i + 5], a[i + 6], a[i + 7]])
}

/// 64 bytes compared as eight words, no loop
fn same64(a: &[u8], b: &[u8; 64]) -> bool {
    let mut ok = a.len() == 64;
    ok &= w64(a, 0) == w64(&b[..], 0);
    ok &= w64(a, 8) == w64(&b[..], 8);
    ok &= w64(a, 16) == w64(&b[..], 16);
    ok &= w64(a, 24) == w64(&b[..], 24);
    ok &= w64(a, 32) == w64(&b[..], 32);
    ok &= w64(a, 40) == w64(&b[..], 40);
    ok &= w64(a, 48) == w64(&b[..], 48);
    ok &= w64(a, 56) == w64(&b[..], 56);
    ok
}

/// 8 bytes compared as one word
fn same8(a: &[u8], b: &[u8; 8]) -> bool {
    a.len() == 8 && w64(a, 0) == w64(&b[..], 0)
}

/// minimal I/O configuration for `BufferedWriter::new`: no output path => the stdout sink
struct WCfg {
    out: Option<std::path::PathBuf>,
}
impl crate::config::inputoutput::InputOutputOpt for WCfg {
    fn input_file(&self) -> Option<&std::path::Path> {
        None
    }
    fn output(&self) -> Option<&std::path::Path> {
        self.out.as_deref()
    }
    fn output_mode(&self) -> crate::config::inputoutput::DataOutputMode {
        crate::config::inputoutput::DataOutputMode::None
    }
    fn stats_output_mode(&self) -> crate::config::inputoutput::DataOutputMode {
        crate::config::inputoutput::DataOutputMode::None
    }
    fn stats_output_format(&self) -> Option<crate::config::inputoutput::DataOutputFormat> {
        None
    }
    fn input_stats_file(&self) -> Option<&std::path::Path> {
        None
    }
}

/// the writer is built by its own constructor (a struct literal would break on every added field)
#[cfg(not(feature = "verif_native"))]
fn new_writer(max: usize) -> BufferedWriter<RdhCru> {
    let w = BufferedWriter::<RdhCru>::new(&WCfg { out: None }, max);
    assert!(w.buf_writer.is_none());
    w
}

/// under Kani the sink is the stubbed stdout and already holds everything
#[cfg(not(feature = "verif_native"))]
fn finish(w: BufferedWriter<RdhCru>) {
    core::mem::forget(w);
}

#[cfg(not(feature = "verif_native"))]
fn sync_sink(_w: &mut BufferedWriter<RdhCru>) {}

#[cfg(feature = "verif_native")]
fn native_path() -> std::path::PathBuf {
    std::env::temp_dir().join(format!("verif_c08_{}.bin", std::process::id()))
}

/// native replay: no stub is active, the sink is a real file that is read back
#[cfg(feature = "verif_native")]
fn new_writer(max: usize) -> BufferedWriter<RdhCru> {
    unsafe {
        SINK.len = 0;
        SINK.n_writes = 0;
    }
    BufferedWriter::<RdhCru>::new(&WCfg { out: Some(native_path()) }, max)
}

#[cfg(feature = "verif_native")]
fn sync_sink(w: &mut BufferedWriter<RdhCru>) {
    io::Write::flush(w.buf_writer.as_mut().unwrap()).unwrap();
    let d = fs::read(native_path()).unwrap();
    unsafe {
        assert!(d.len() <= CAPN);
        SINK_OUT[..d.len()].copy_from_slice(&d);
        SINK.len = d.len();
    }
}

#[cfg(feature = "verif_native")]
fn finish(mut w: BufferedWriter<RdhCru>) {
    sync_sink(&mut w);
    w.filtered_rdhs_buffer.clear();
    w.filtered_payload_buffers.clear();
    drop(w);
    let _ = fs::remove_file(native_path());
}

/// a header that is concrete (byte i = seed + i) except for 8 symbolic bytes at 8..16 (offset/memory size/link/counter)
const fn mk(seed: u8) -> [u8; 64] {
    let mut h = [0u8; 64];
    let mut i = 0;
    while i < 64 {
        h[i] = seed.wrapping_add(i as u8);
        i += 1;
    }
    h
}
const H_A: [u8; 64] = mk(1);
const H_B: [u8; 64] = mk(101);

fn hdr(first: bool) -> [u8; 64] {
    let mut h = if first { H_A } else { H_B };
    let v: [u8; 8] = kani::any();
    h[8] = v[0];
    h[9] = v[1];
    h[10] = v[2];
    h[11] = v[3];
    h[12] = v[4];
    h[13] = v[5];
    h[14] = v[6];
    h[15] = v[7];
    h
}

fn one(h: &[u8; 64], p: &[u8; 8]) -> CdpArray<RdhCru, 1> {
    let mut a = CdpArray::<RdhCru, 1>::new_const();
    a.push(RdhCru::from_buf(h).unwrap(), p.to_vec(), 0);
    a
}

//@ harness: c08_writer_one props=C08 tier=quick class=functional covers=1 mem=28 timeout=1500 est=300 args=-Z,restrict-vtable
//@ bounds: BufferedWriter, sink = stdout (stubbed write_all): one batch of one packet (header: concrete pattern with bytes 8..16 symbolic; payload of 8 symbolic bytes), explicit flush, then a second flush with nothing new: the sink receives exactly rdh|payload (byte for byte) ONCE
#[kani::proof]
#[kani::unwind(4)]
#[kani::stub(<std::io::Stdout as std::io::Write>::write_all, sink_write_all)]
#[kani::stub(std::io::stdout, sink_stdout)]
#[kani::stub(alloc::fmt::format, crate::vsup::stub_format)]
fn c08_writer_one() {
    let h0 = hdr(true);
    let p0: [u8; 8] = kani::any();
    let mut w = new_writer(10);
    w.push_cdp_arr(one(&h0, &p0));
    let r = w.flush();
    assert!(r.is_ok());
    core::mem::forget(r);
    sync_sink(&mut w);
    unsafe {
        assert!(SINK.len == 72, "sink received a wrong number of bytes");
    }
    let r = w.flush();
    assert!(r.is_ok());
    core::mem::forget(r);
    finish(w);
    unsafe {
        assert!(SINK.len == 72, "a flush with nothing new to write wrote something (duplicated output)");
        assert!(same64(&SINK_OUT[0..64], &h0), "header altered");
        assert!(same8(&SINK_OUT[64..72], &p0), "payload altered");
        kani::cover!(SINK.n_writes >= 1 || cfg!(feature = "verif_native"), "written");
    }
}

//@ harness: c08_writer_one_full props=C08 tier=thorough required=no class=functional covers=1 mem=44 timeout=1500 est=400 args=-Z,restrict-vtable
//@ bounds: same with a fully symbolic 64-byte header, single flush
#[kani::proof]
#[kani::unwind(4)]
#[kani::stub(<std::io::Stdout as std::io::Write>::write_all, sink_write_all)]
#[kani::stub(std::io::stdout, sink_stdout)]
#[kani::stub(alloc::fmt::format, crate::vsup::stub_format)]
fn c08_writer_one_full() {
    let h0: [u8; 64] = kani::any();
    let p0: [u8; 8] = kani::any();
    let mut w = new_writer(10);
    w.push_cdp_arr(one(&h0, &p0));
    let r = w.flush();
    assert!(r.is_ok());
    core::mem::forget(r);
    finish(w);
    unsafe {
        assert!(SINK.len == 72, "sink received a wrong number of bytes");
        assert!(same64(&SINK_OUT[0..64], &h0), "header altered");
        assert!(same8(&SINK_OUT[64..72], &p0), "payload altered");
        kani::cover!(SINK.n_writes == 1 || cfg!(feature = "verif_native"), "one write");
    }
}

//@ harness: c08_writer_two_flushes props=C08 tier=thorough required=no class=functional covers=1 mem=44 timeout=900 est=300 args=-Z,restrict-vtable
//@ bounds: BufferedWriter with buffer limit 2 (production: 1 Mi packets), two batches of one packet each (headers: distinct concrete patterns with bytes 8..16 symbolic; 8-byte symbolic payloads): the second push flushes the first packet, the final flush the second: the sink receives rdh0|payload0|rdh1|payload1 exactly once each, in order
#[kani::proof]
#[kani::unwind(4)]
#[kani::stub(<std::io::Stdout as std::io::Write>::write_all, sink_write_all)]
#[kani::stub(std::io::stdout, sink_stdout)]
#[kani::stub(alloc::fmt::format, crate::vsup::stub_format)]
fn c08_writer_two_flushes() {
    let h0 = hdr(true);
    let p0: [u8; 8] = kani::any();
    let h1 = hdr(false);
    let p1: [u8; 8] = kani::any();
    let mut w = new_writer(2);
    w.push_cdp_arr(one(&h0, &p0));
    sync_sink(&mut w);
    unsafe {
        assert!(SINK.len == 0, "written before the buffer limit was reached");
    }
    w.push_cdp_arr(one(&h1, &p1));
    sync_sink(&mut w);
    unsafe {
        assert!(SINK.len == 72, "the buffered packet was not written when the limit was reached");
    }
    let r = w.flush();
    assert!(r.is_ok());
    core::mem::forget(r);
    finish(w);
    unsafe {
        assert!(SINK.len == 144, "sink received a wrong number of bytes (lost or duplicated packets)");
        assert!(same64(&SINK_OUT[0..64], &h0), "first header altered");
        assert!(same8(&SINK_OUT[64..72], &p0), "first payload altered");
        assert!(same64(&SINK_OUT[72..136], &h1), "second header altered");
        assert!(same8(&SINK_OUT[136..144], &p1), "second payload altered");
        kani::cover!(SINK.n_writes == 2 || cfg!(feature = "verif_native"), "two writes");
    }
}

//@ harness: c08_writer_flush_twice_concrete props=C08 tier=quick class=functional covers=1 mem=16 timeout=900 est=60 args=-Z,restrict-vtable
//@ bounds: BufferedWriter, one CONCRETE packet pushed, flush, then a second flush with nothing new: the sink receives 72 bytes by the first flush and nothing by the second (byte counts only, cheap enough to stay decidable when the writer gains state; contents are c08_writer_one's part)
#[kani::proof]
#[kani::unwind(4)]
#[kani::stub(<std::io::Stdout as std::io::Write>::write_all, sink_write_all)]
#[kani::stub(std::io::stdout, sink_stdout)]
#[kani::stub(alloc::fmt::format, crate::vsup::stub_format)]
fn c08_writer_flush_twice_concrete() {
    let h0 = H_A;
    let p0: [u8; 8] = [0xA0, 0xA1, 0xA2, 0xA3, 0xA4, 0xA5, 0xA6, 0xA7];
    let mut w = new_writer(10);
    w.push_cdp_arr(one(&h0, &p0));
    let r = w.flush();
    assert!(r.is_ok());
    core::mem::forget(r);
    sync_sink(&mut w);
    unsafe {
        assert!(SINK.len == 72, "sink received a wrong number of bytes");
    }
    let r = w.flush();
    assert!(r.is_ok());
    core::mem::forget(r);
    finish(w);
    unsafe {
        assert!(SINK.len == 72, "a flush with nothing new to write wrote something (duplicated output)");
        kani::cover!(SINK.n_writes >= 1 || cfg!(feature = "verif_native"), "written");
    }
}
