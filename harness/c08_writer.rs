//@ attach: fastpasta/src/write/writer.rs
//@ mod: verif_c08
// C08 (iii) — what the filtered-output writer hands to its sink is rdh0|payload0|rdh1|payload1...
// BEST-EFFORT ONLY: both instances exhaust 16 GB (Vec<Vec<u8>> + Vec<RdhCru> + the flush loop); they are
// kept in the thorough tier as `required=no` and (iii) is listed as outside the claim (DESIGN 2 C08).
#![allow(unused_imports, dead_code, static_mut_refs, clippy::all)]
use super::*;
use alice_protocol_reader::cdp_wrapper::cdp_array::CdpArray;
use alice_protocol_reader::prelude::{RdhCru, SerdeRdh, RDH};

const CAPN: usize = 512;
static mut OUT: [u8; CAPN] = [0; CAPN];
static mut OUT_LEN: usize = 0;
static mut N_WRITES: usize = 0;

/// stub for `<std::io::Stdout as std::io::Write>::write_all` (the sink used when no file is configured)
fn sink_write_all(_s: &mut std::io::Stdout, buf: &[u8]) -> std::io::Result<()> {
    unsafe {
        let n = buf.len();
        assert!(OUT_LEN + n <= CAPN);
        OUT[OUT_LEN..OUT_LEN + n].copy_from_slice(buf);
        OUT_LEN += n;
        N_WRITES += 1;
    }
    Ok(())
}

/// stub for `std::io::stdout`: the handle is never used (write_all is stubbed); building the real one
/// initialises a OnceLock/ReentrantLock, which is not the subject
fn sink_stdout() -> std::io::Stdout {
    unsafe { core::mem::zeroed() }
}

fn same(a: &[u8], b: &[u8]) -> bool {
    // equal length + word-wise compare without a byte loop beyond 96 bytes
    if a.len() != b.len() {
        return false;
    }
    let mut ok = true;
    let mut i = 0;
    while i < a.len() {
        ok &= a[i] == b[i];
        i += 1;
    }
    ok
}

//@ harness: c08_writer_one props=C08 tier=thorough required=no class=functional covers=1 mem=16 timeout=900 est=200
//@ bounds: BufferedWriter, sink = stdout (stubbed): one batch of one packet (header fully symbolic, payload of 6 symbolic bytes), explicit flush: the sink receives exactly rdh|payload (byte for byte)
#[kani::proof]
#[kani::unwind(66)]
#[kani::stub(<std::io::Stdout as std::io::Write>::write_all, sink_write_all)]
#[kani::stub(std::io::stdout, sink_stdout)]
#[kani::stub(alloc::fmt::format, crate::vsup::stub_format)]
fn c08_writer_one() {
    let h0: [u8; 64] = kani::any();
    let p0: [u8; 6] = kani::any();
    let mut w = BufferedWriter::<RdhCru> {
        filtered_rdhs_buffer: Vec::with_capacity(4),
        filtered_payload_buffers: Vec::with_capacity(4),
        buf_writer: None,
        max_buffer_size: 10,
    };
    let mut a = CdpArray::<RdhCru, 1>::new_const();
    a.push(RdhCru::from_buf(&h0).unwrap(), p0.to_vec(), 0);
    w.push_cdp_arr(a);
    let r = w.flush();
    assert!(r.is_ok());
    core::mem::forget(r);
    core::mem::forget(w);
    unsafe {
        assert!(OUT_LEN == 70, "sink received a wrong number of bytes");
        assert!(same(&OUT[0..64], &h0), "header altered");
        assert!(same(&OUT[64..70], &p0), "payload altered");
        kani::cover!(N_WRITES == 1, "one write");
    }
}
