//@ attach: fastpasta/src/write/writer.rs
//@ mod: verif_c08
// C08 (iii) — what the filtered-output writer hands to its sink is rdh0|payload0|rdh1|payload1...
#![allow(unused_imports, dead_code, static_mut_refs, clippy::all)]
use super::*;
use alice_protocol_reader::cdp_wrapper::cdp_array::CdpArray;
use alice_protocol_reader::prelude::{RdhCru, SerdeRdh, RDH};

const CAPN: usize = 512;
static mut OUT: [u8; CAPN] = [0; CAPN];
static mut OUT_LEN: usize = 0;
static mut N_WRITES: usize = 0;

/// stub for `<std::io::Stdout as std::io::Write>::write_all` (the sink used when no file is configured)
fn sink_write_all(_s: &mut std::io::Stdout, buf: &[u8]) -> std::io::Result<()> {
    unsafe {
        let n = buf.len();
        assert!(OUT_LEN + n <= CAPN);
        OUT[OUT_LEN..OUT_LEN + n].copy_from_slice(buf);
        OUT_LEN += n;
        N_WRITES += 1;
    }
    Ok(())
}

fn same(a: &[u8], b: &[u8]) -> bool {
    // equal length + word-wise compare without a byte loop beyond 96 bytes
    if a.len() != b.len() {
        return false;
    }
    let mut ok = true;
    let mut i = 0;
    while i < a.len() {
        ok &= a[i] == b[i];
        i += 1;
    }
    ok
}

//@ harness: c08_writer_two_batches props=C08 tier=quick class=functional covers=1 mem=16 timeout=1800 est=300
//@ bounds: BufferedWriter with flush threshold 2, sink = stdout (stubbed): two batches of one packet each (headers fully symbolic, payloads of 10 and 6 symbolic bytes), then drop: the sink receives exactly rdh0|payload0|rdh1|payload1 (byte for byte, in order), also across the threshold flush
#[kani::proof]
#[kani::unwind(82)]
#[kani::stub(<std::io::Stdout as std::io::Write>::write_all, sink_write_all)]
#[kani::stub(alloc::fmt::format, crate::vsup::stub_format)]
fn c08_writer_two_batches() {
    let h0: [u8; 64] = kani::any();
    let h1: [u8; 64] = kani::any();
    let p0: [u8; 10] = kani::any();
    let p1: [u8; 6] = kani::any();
    let mut w = BufferedWriter::<RdhCru> {
        filtered_rdhs_buffer: Vec::with_capacity(4),
        filtered_payload_buffers: Vec::with_capacity(4),
        buf_writer: None,
        max_buffer_size: 2,
    };
    let mut a = CdpArray::<RdhCru, 1>::new_const();
    a.push(RdhCru::from_buf(&h0).unwrap(), p0.to_vec(), 0);
    w.push_cdp_arr(a);
    let mut b = CdpArray::<RdhCru, 1>::new_const();
    b.push(RdhCru::from_buf(&h1).unwrap(), p1.to_vec(), 74);
    w.push_cdp_arr(b); // 1 + 1 >= 2: flushes the first packet, then buffers the second
    drop(w); // flushes the rest
    unsafe {
        assert!(OUT_LEN == 64 + 10 + 64 + 6, "sink received a wrong number of bytes");
        assert!(same(&OUT[0..64], &h0), "first header altered");
        assert!(same(&OUT[64..74], &p0), "first payload altered");
        assert!(same(&OUT[74..138], &h1), "second header altered or out of order");
        assert!(same(&OUT[138..144], &p1), "second payload altered");
        kani::cover!(N_WRITES == 2, "threshold flush and final flush");
    }
}
