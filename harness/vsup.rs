// Support code shared by all harnesses. Attached (scratch copy only) as `crate::vsup` to the
// root of both workspace crates:  #[cfg(kani)] #[path = ".../vsup.rs"] pub(crate) mod vsup;
//
// Two build modes of the SAME harness source:
//   * Kani verification (default under cfg(kani)): the stubs below replace formatting and
//     channel sends; what the code under test reports is recorded in statics.
//   * native replay (`--features verif_native`, used by `cargo kani playback`): no stub is
//     active (kani::stub is a no-op outside kani-compiler); the real functions format real
//     strings and send them through the real channels; `observe*` drains the receiver and
//     parses the messages into the same record type.

/// loop-free repetition: harnesses choose minimal unwind bounds, support code must not add loops
macro_rules! unroll {
    (6, $i:ident, $body:block) => {{
        { let $i: usize = 0; $body } { let $i: usize = 1; $body } { let $i: usize = 2; $body }
        { let $i: usize = 3; $body } { let $i: usize = 4; $body } { let $i: usize = 5; $body }
    }};
    (8, $i:ident, $body:block) => {{
        { let $i: usize = 0; $body } { let $i: usize = 1; $body } { let $i: usize = 2; $body }
        { let $i: usize = 3; $body } { let $i: usize = 4; $body } { let $i: usize = 5; $body }
        { let $i: usize = 6; $body } { let $i: usize = 7; $body }
    }};
    (10, $i:ident, $body:block) => {{
        { let $i: usize = 0; $body } { let $i: usize = 1; $body } { let $i: usize = 2; $body }
        { let $i: usize = 3; $body } { let $i: usize = 4; $body } { let $i: usize = 5; $body }
        { let $i: usize = 6; $body } { let $i: usize = 7; $body } { let $i: usize = 8; $body }
        { let $i: usize = 9; $body }
    }};
}

pub const MAXREP: usize = 6;

/// One observed error report.
#[derive(Clone, Copy, Debug)]
pub struct Rep {
    /// leading `0x<pos>:` of the message (for `report_error` its `mem_pos` argument)
    pub pos: u64,
    pub has_pos: bool,
    /// the first 6 bytes of the message after the position, e.g. `[E40] ` / `[E444]` / `[E9001`
    pub code: [u8; 6],
    /// the 10 word bytes quoted in the message (only for its::util::report_error)
    pub word: [u8; 10],
    pub has_word: bool,
}

pub const NOREP: Rep =
    Rep { pos: 0, has_pos: false, code: [0; 6], word: [0; 10], has_word: false };

impl Rep {
    /// `[E40` style family test on the code prefix
    pub fn is(&self, fam: &[u8]) -> bool {
        let mut ok = true;
        unroll!(6, i, {
            if i < fam.len() && self.code[i] != fam[i] {
                ok = false;
            }
        });
        ok
    }
}

#[derive(Clone, Copy, Debug)]
pub struct Obs {
    /// messages of any kind sent on the observed channel
    pub n_send: usize,
    /// `Error` messages
    pub n_err: usize,
    /// `Fatal` messages
    pub n_fatal: usize,
    pub reps: [Rep; MAXREP],
}

impl Obs {
    pub fn any(&self, fam: &[u8]) -> bool {
        let mut r = false;
        unroll!(6, i, {
            if i < self.n_err && self.reps[i].is(fam) {
                r = true;
            }
        });
        r
    }
    pub fn any_at(&self, fam: &[u8], pos: u64) -> bool {
        let mut r = false;
        unroll!(6, i, {
            if i < self.n_err && self.reps[i].is(fam) && self.reps[i].has_pos && self.reps[i].pos == pos {
                r = true;
            }
        });
        r
    }
    /// every recorded report that carries a position carries `pos`
    pub fn all_at(&self, pos: u64) -> bool {
        let mut r = true;
        unroll!(6, i, {
            if i < self.n_err && !(self.reps[i].has_pos && self.reps[i].pos == pos) {
                r = false;
            }
        });
        r
    }
    pub fn all_quote(&self, w: &[u8]) -> bool {
        let mut r = true;
        unroll!(6, i, {
            if i < self.n_err && self.reps[i].has_word {
                unroll!(10, k, {
                    if self.reps[i].word[k] != w[k] {
                        r = false;
                    }
                });
            }
        });
        r
    }
}

// ------------------------------------------------------------------------------------------
// Kani verification mode
// ------------------------------------------------------------------------------------------
#[cfg(not(feature = "verif_native"))]
mod imp {
    use super::*;

    /// What the last `format!`/`write!` call looked like (see `peek`).
    #[derive(Clone, Copy)]
    pub struct FmtRec {
        pub has_lead: bool,
        pub lead: u64,
        pub lit: [u8; 8],
        pub nlit: usize,
        pub litp: *const u8,
    }
    pub const NOFMT: FmtRec = FmtRec { has_lead: false, lead: 0, lit: [0; 8], nlit: 0, litp: core::ptr::null() };

    /// ALL mutable observation state lives in ONE static whose initial bytes are unique (`magic`).
    /// Reason: Kani 0.68 materialises constants of struct type (e.g. `RawVec`'s `Cap::ZERO` behind
    /// `Vec::new()`) by looking up an allocation with the same bytes, and a `static mut X: usize = 0`
    /// qualifies: `Vec::new()` then READS ITS CAPACITY FROM X, also after X was incremented (seen as
    /// spurious `__rust_dealloc` failures in a writer harness; found by reading the goto program:
    /// `RawVecInner::new_in` assigned `*(Cap*)&N_WRITES`). A static whose whole content no constant
    /// can equal is never chosen. Keep it that way: no `static mut` with all-zero or otherwise
    /// ordinary initial bytes anywhere in the harness code, and no constant equal to a whole static.
    pub struct VState {
        magic: u64,
        /// the most recent `format!` whose template is `{u64:#X}: ...` (the `0x<pos>: ` convention)
        pub last_posfmt: FmtRec,
        pub have_posfmt: bool,
        /// the most recent `format!` result that starts with a `[E` literal
        pub last_code: [u8; 6],
        pub have_code: bool,
        pub n_send: usize,
        pub n_err: usize,
        pub n_fatal: usize,
        pub reps: [Rep; MAXREP],
    }
    pub static mut ST: VState = VState {
        magic: 0x5645_5249_465F_5354,
        last_posfmt: NOFMT,
        have_posfmt: false,
        last_code: [0; 6],
        have_code: false,
        n_send: 0,
        n_err: 0,
        n_fatal: 0,
        reps: [NOREP; MAXREP],
    };

    pub fn reset() {
        unsafe {
            ST.n_send = 0;
            ST.n_err = 0;
            ST.n_fatal = 0;
            ST.reps = [NOREP; MAXREP];
            ST.have_posfmt = false;
            ST.have_code = false;
        }
    }

    /// Reads the head of a `fmt::Arguments` template WITHOUT running any formatting code.
    /// Layout (core::fmt, this pinned toolchain): `Arguments { template: *const u8, args: *const
    /// rt::Argument }`; args low bit set => `&'static str` of length bits>>1; otherwise the
    /// template is a byte sequence: len-prefixed literal pieces (len < 0x80), placeholders
    /// (byte >= 0xC0, optional u32 flags / u16 width / u16 precision / u16 index), 0 = end.
    /// `rt::Argument` = { value: *const (), formatter: fn }. Validated on every run by the
    /// `vsup_selftest_*` harnesses (under Kani and natively).
    pub fn peek(a: &core::fmt::Arguments<'_>) -> FmtRec {
        let mut r = NOFMT;
        let raw: [usize; 2] = unsafe { core::mem::transmute_copy(a) };
        let (tp, ap) = (raw[0] as *const u8, raw[1]);
        if ap & 1 == 1 {
            let n = ap >> 1;
            unroll!(8, i, {
                if i < n {
                    r.lit[i] = unsafe { *tp.add(i) };
                }
            });
            r.nlit = if n < 8 { n } else { 8 };
            r.litp = tp;
            return r;
        }
        let mut off = 0usize;
        let b0 = unsafe { *tp };
        if b0 >= 0xC0 {
            // leading placeholder: skip its optional fields
            off = 1;
            let has_flags = b0 & 1 != 0;
            let mut alt_upper_hex = false;
            if has_flags {
                let f = unsafe {
                    u32::from_le_bytes([*tp.add(1), *tp.add(2), *tp.add(3), *tp.add(4)])
                };
                // FormattingOptions flags: alternate = bit 23, debug_upper_hex = bit 26 is for {:X?};
                // `{:#X}` sets only the alternate flag; the radix comes from the trait (UpperHex).
                alt_upper_hex = f & (1 << 23) != 0;
                off += 4;
            }
            if b0 & 2 != 0 {
                off += 2;
            }
            if b0 & 4 != 0 {
                off += 2;
            }
            let explicit_index = b0 & 8 != 0;
            if explicit_index {
                off += 2;
            }
            let n = unsafe { *tp.add(off) };
            // literal pieces longer than 127 bytes are encoded as 0x80, u16 length, bytes
            let skip = if n == 0x80 { 3 } else { 1 };
            // `{pos:#X}: ` convention: alternate flag, implicit index 0, next piece starts with ": "
            if alt_upper_hex
                && !explicit_index
                && n >= 2
                && n <= 0x80
                && unsafe { *tp.add(off + skip) } == b':'
                && unsafe { *tp.add(off + skip + 1) } == b' '
            {
                let argp = ap as *const [usize; 2];
                // the position must be a u64 rendered by UpperHex (`{pos:#X}`): the error sort and every
                // consumer of the messages parse `0x[0-9A-F]+`
                let want: fn(&u64, &mut core::fmt::Formatter<'_>) -> core::fmt::Result = <u64 as core::fmt::UpperHex>::fmt;
                if unsafe { (*argp)[1] } == want as usize {
                    let valp = unsafe { (*argp)[0] } as *const u64;
                    r.lead = unsafe { *valp };
                    r.has_lead = true;
                }
            }
        }
        let n = unsafe { *tp.add(off) };
        if n > 0 && n <= 0x80 {
            let (n, start) = if n == 0x80 {
                (unsafe { u16::from_le_bytes([*tp.add(off + 1), *tp.add(off + 2)]) } as usize, off + 3)
            } else {
                (n as usize, off + 1)
            };
            unroll!(8, i, {
                if i < n {
                    r.lit[i] = unsafe { *tp.add(start + i) };
                }
            });
            r.nlit = if n < 8 { n } else { 8 };
            r.litp = unsafe { tp.add(start) };
        }
        r
    }

    fn note(r: &FmtRec) {
        unsafe {
            if r.has_lead {
                ST.last_posfmt = *r;
                ST.have_posfmt = true;
                // "{pos:#X}: [E59] literal" carries its own code
                if r.nlit >= 8 && r.lit[2] == b'[' && r.lit[3] == b'E' {
                    unroll!(6, k, {
                        ST.last_code[k] = r.lit[2 + k];
                    });
                    ST.have_code = true;
                }
            } else if r.nlit >= 6 && r.lit[0] == b'[' && r.lit[1] == b'E' {
                unroll!(6, k, {
                    ST.last_code[k] = r.lit[k];
                });
                ST.have_code = true;
            }
        }
    }

    static HASH: &str = "#";

    /// stub for `alloc::fmt::format`. The text that stands in for a formatted string is the first
    /// literal piece of the template (<= 8 bytes, read in place from the static template), or "#"
    /// when the template starts with a placeholder. Never empty when the real text is never
    /// empty (every format string in the two crates has a literal piece or a placeholder).
    pub fn stub_format(args: core::fmt::Arguments<'_>) -> String {
        let r = peek(&args);
        note(&r);
        if r.nlit == 0 || r.has_lead {
            return String::from(HASH);
        }
        // all literals in the code base are ASCII in their first 8 bytes
        let s: &str = unsafe { core::str::from_utf8_unchecked(core::slice::from_raw_parts(r.litp, r.nlit)) };
        String::from(s)
    }

    /// stub for `<core::io::error::repr::Repr as Drop>::drop` / `<core::io::CustomOwner as Drop>::drop`:
    /// an io::Error is leaked instead of dropped. Without it CBMC walks io::Error's recursive drop
    /// glue (Box<dyn Error> -> every Error impl -> io::Error ...) at every `?` of the scanner and
    /// runs out of memory; a leaked error box does not change what the scanner returns or reports.
    pub fn stub_drop_noop<T>(_this: &mut T) {}

    /// cheaper stub for `alloc::fmt::format` for harnesses in which neither the emptiness nor the
    /// code prefix of a formatted string is consulted by the code under test or by the harness:
    /// no allocation at all.
    pub fn stub_format_empty(_args: core::fmt::Arguments<'_>) -> String {
        String::new()
    }

    /// stub for `core::fmt::write` (the `write!(string, ...)` sites): one byte, because the
    /// callers decide Ok/Err by `err_str.is_empty()`.
    pub fn stub_write(output: &mut dyn core::fmt::Write, args: core::fmt::Arguments<'_>) -> core::fmt::Result {
        output.write_str("#")
    }

    /// stub for `flume::Sender::<T>::send`: never blocks, never fails, counts; the message is
    /// forgotten (its drop glue is not the subject).
    pub fn stub_send<T>(_s: &flume::Sender<T>, m: T) -> Result<(), flume::SendError<T>> {
        unsafe {
            ST.n_send += 1;
        }
        super::classify(&m);
        core::mem::forget(m);
        Ok(())
    }

    pub fn record_error_from_formats() {
        unsafe {
            if ST.n_err < MAXREP {
                let mut r = NOREP;
                if ST.have_posfmt {
                    r.pos = ST.last_posfmt.lead;
                    r.has_pos = true;
                }
                if ST.have_code {
                    r.code = ST.last_code;
                }
                ST.reps[ST.n_err] = r;
            }
            ST.n_err += 1;
            ST.have_posfmt = false;
            ST.have_code = false;
        }
    }

    /// stub for `crate::analyze::validators::its::util::report_error`
    pub fn stub_report_error<T>(mem_pos: u64, err: &str, word_slice: &[u8], _sender: &flume::Sender<T>) {
        unsafe {
            ST.n_send += 1;
            if ST.n_err < MAXREP {
                let mut r = NOREP;
                r.pos = mem_pos;
                r.has_pos = true;
                let eb = err.as_bytes();
                unroll!(6, k, {
                    if k < eb.len() {
                        r.code[k] = eb[k];
                    }
                });
                unroll!(10, k, {
                    r.word[k] = word_slice[k];
                });
                r.has_word = true;
                ST.reps[ST.n_err] = r;
            }
            ST.n_err += 1;
            ST.have_posfmt = false;
            ST.have_code = false;
        }
    }

    pub fn snapshot() -> Obs {
        unsafe { Obs { n_send: ST.n_send, n_err: ST.n_err, n_fatal: ST.n_fatal, reps: ST.reps } }
    }
}

#[cfg(not(feature = "verif_native"))]
pub use imp::*;

// ------------------------------------------------------------------------------------------
// native replay mode: parse real messages
// ------------------------------------------------------------------------------------------
#[cfg(feature = "verif_native")]
pub fn reset() {}

/// parse "0x1F4: [E40] ....  [AA BB .. ]" into a Rep
pub fn parse_msg(msg: &str) -> Rep {
    let mut r = NOREP;
    let b = msg.as_bytes();
    let mut i = 0;
    if b.len() > 2 && b[0] == b'0' && (b[1] == b'x' || b[1] == b'X') {
        i = 2;
        let mut v: u64 = 0;
        let mut nd = 0;
        while i < b.len() && ((b[i] as char).is_ascii_digit() || (b'A'..=b'F').contains(&b[i])) {
            v = (v << 4) | (b[i] as char).to_digit(16).unwrap() as u64;
            i += 1;
            nd += 1;
        }
        if nd > 0 && i + 1 < b.len() && b[i] == b':' && b[i + 1] == b' ' {
            r.pos = v;
            r.has_pos = true;
            i += 2;
        } else {
            i = 0;
        }
    }
    let mut k = 0;
    while k < 6 && i + k < b.len() {
        r.code[k] = b[i + k];
        k += 1;
    }
    // trailing "[XX XX XX XX XX XX XX XX XX XX]"
    if b.len() >= 31 && b[b.len() - 1] == b']' && b[b.len() - 31] == b'[' {
        let s = &msg[b.len() - 30..b.len() - 1];
        let mut ok = true;
        let mut w = [0u8; 10];
        for (n, tok) in s.split(' ').enumerate() {
            if n >= 10 || tok.len() != 2 {
                ok = false;
                break;
            }
            match u8::from_str_radix(tok, 16) {
                Ok(v) => w[n] = v,
                Err(_) => {
                    ok = false;
                    break;
                }
            }
        }
        if ok {
            r.word = w;
            r.has_word = true;
        }
    }
    r
}
