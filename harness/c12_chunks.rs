//@ attach: fastpasta/src/analyze/validators/lib.rs
//@ mod: verif_c12
// C12 — payload chunking; padding is never a word.
#![allow(unused_imports, dead_code, clippy::all)]
use super::*;

fn ref_ff_run(p: &[u8]) -> usize {
    let mut n = 0;
    let mut i = p.len();
    while i > 0 && p[i - 1] == 0xFF {
        n += 1;
        i -= 1;
    }
    n
}

fn chunking<const N: usize>() {
    let buf: [u8; N] = kani::any();
    let len: usize = kani::any();
    kani::assume(len <= N);
    let p = &buf[..len];
    let ff = ref_ff_run(p);
    let r = preprocess_payload(p);
    if ff > 15 {
        assert!(r.is_err(), "more than 15 bytes of 0xFF padding must be rejected");
        kani::cover!(ff == 16, "16 bytes of padding rejected");
        core::mem::forget(r);
        return;
    }
    assert!(r.is_ok(), "<= 15 bytes of 0xFF padding must be accepted");
    let mut chunks = r.unwrap();
    // format decision = "the first slot's bytes 10..16 are all zero"
    let v0 = len >= 16 && p[10] == 0 && p[11] == 0 && p[12] == 0 && p[13] == 0 && p[14] == 0 && p[15] == 0;
    let (slot, count) = if v0 {
        (16usize, len / 16)
    } else if ff > 9 {
        (10usize, (len - ff) / 10)
    } else {
        (10usize, len / 10)
    };
    assert!(chunks.len() == count, "number of words differs");
    let mut i = 0;
    while i < N / 10 + 1 {
        if i < count {
            let c = chunks.next();
            assert!(c.is_some());
            let c = c.unwrap();
            assert!(c.len() == slot);
            // chunk i IS the sub-slice at i*slot (same bytes, same place: pointer equality)
            assert!(core::ptr::eq(c.as_ptr(), p[i * slot..].as_ptr()), "chunk is not the slice at i*slot");
        }
        i += 1;
    }
    assert!(chunks.next().is_none(), "extra chunk");
    // under the property's precondition the layout is exactly consumed:
    // format 2 = k words (the last one not ending in 0xFF) + pad <= 15 bytes of 0xFF
    if !v0 && (len - ff) % 10 == 0 {
        assert!(count == (len - ff) / 10, "format 2: a word was lost or a padding byte became a word");
        assert!(count * 10 <= len - ff, "format 2: a chunk overlaps the padding");
    }
    // format 0 = k 16-byte slots
    if v0 && len % 16 == 0 {
        assert!(count * 16 == len, "format 0: slots not all examined");
    }
    kani::cover!(v0 && count >= 2, "format 0, >= 2 slots");
    kani::cover!(!v0 && ff > 9 && count >= 1, "format 2, padding 10..15 cut off");
    kani::cover!(!v0 && ff > 0 && ff <= 9 && count >= 2 && (len - ff) % 10 == 0, "format 2, padding 1..9");
    kani::cover!(!v0 && ff == 0 && count >= 2, "format 2, no padding");
    kani::cover!(len == 0, "empty payload");
}

//@ harness: c12_chunks40 props=C04,C18 also=C12 tier=quick class=functional_rel covers=6 mem=12 timeout=1200 est=150
//@ bounds: every payload of length 0..=40 bytes, arbitrary contents (release semantics: the code's debug_assert!s compiled out; they are decided separately by c12_wellformed)
#[kani::proof]
#[kani::unwind(42)]
#[kani::stub(alloc::fmt::format, crate::vsup::stub_format)]
fn c12_chunks40() {
    chunking::<40>();
}

//@ harness: c12_chunks64 props=C12,C01,C02,C07 tier=quick class=functional_rel covers=6 mem=16 timeout=1500 est=120
//@ bounds: every payload of length 0..=64 bytes, arbitrary contents (release semantics)
#[kani::proof]
#[kani::unwind(66)]
#[kani::stub(alloc::fmt::format, crate::vsup::stub_format)]
fn c12_chunks64() {
    chunking::<64>();
}

//@ harness: c12_wellformed props=C12,C01,C04 tier=quick class=functional covers=3 mem=12 timeout=1200 est=150
//@ bounds: every WELL-FORMED payload of length 0..=40 (format 0: k 16-byte slots with zero bytes 10..16 in the first slot; format 2: k 10-byte words whose last byte is not 0xFF + 0..=15 bytes of 0xFF): dev profile, the code's own debug_assert!s must hold and exactly k words come out
#[kani::proof]
#[kani::unwind(42)]
#[kani::stub(alloc::fmt::format, crate::vsup::stub_format)]
fn c12_wellformed() {
    const N: usize = 40;
    let buf: [u8; N] = kani::any();
    let len: usize = kani::any();
    kani::assume(len <= N);
    let p = &buf[..len];
    let ff = ref_ff_run(p);
    let v0 = len >= 16 && p[10] == 0 && p[11] == 0 && p[12] == 0 && p[13] == 0 && p[14] == 0 && p[15] == 0;
    let fmt0: bool = kani::any();
    let k = if fmt0 {
        // every slot ends in 6 zero bytes, so the payload cannot end in 0xFF
        kani::assume(len % 16 == 0 && (len == 0 || v0) && ff == 0);
        len / 16
    } else {
        kani::assume(ff <= 15 && (len - ff) % 10 == 0 && !v0);
        (len - ff) / 10
    };
    let r = preprocess_payload(p);
    assert!(r.is_ok());
    let chunks = r.unwrap();
    assert!(chunks.len() == k, "well-formed payload: word count differs");
    kani::cover!(fmt0 && k == 2, "format 0, two slots");
    kani::cover!(!fmt0 && k == 2 && ff == 15, "format 2, two words, 15 bytes padding");
    kani::cover!(!fmt0 && k == 3 && ff == 3, "format 2, three words, 3 bytes padding");
}

//@ harness: c12_chunks100 props=C12 tier=thorough class=functional_rel covers=6 mem=28 timeout=3000 est=900
//@ bounds: every payload of length 0..=100 bytes, arbitrary contents (release semantics)
#[kani::proof]
#[kani::unwind(102)]
#[kani::stub(alloc::fmt::format, crate::vsup::stub_format)]
fn c12_chunks100() {
    chunking::<100>();
}
