//@ attach: fastpasta/src/analyze/validators/its/status_word/tdh.rs
//@ mod: verif_c20
// C20 (i) — trigger period with wrap-around across orbits.
#![allow(unused_imports, dead_code, clippy::all)]
use super::*;

//@ harness: c20_trigger_interval props=C20 tier=quick class=functional covers=3 mem=8 timeout=600 est=30
//@ bounds: all pairs of internal-trigger TDHs with bunch crossings <= 3563 (all other bits arbitrary) x all configured periods (u16): Err <=> (current - previous) mod 3564 != period
#[kani::proof]
#[kani::stub(alloc::fmt::format, crate::vsup::stub_format)]
#[kani::stub(core::fmt::write, crate::vsup::stub_write)]
fn c20_trigger_interval() {
    let a: [u8; 10] = kani::any();
    let b: [u8; 10] = kani::any();
    let prev = Tdh::from_buf(&a).unwrap();
    let cur = Tdh::from_buf(&b).unwrap();
    kani::assume(prev.internal_trigger() == 1 && cur.internal_trigger() == 1);
    let pbc = (a[2] as u32) | ((a[3] & 0x0F) as u32) << 8;
    let cbc = (b[2] as u32) | ((b[3] & 0x0F) as u32) << 8;
    kani::assume(pbc <= 3563 && cbc <= 3563);
    let period: u16 = kani::any();
    let r = TdhValidator::check_trigger_interval(&cur, &prev, period);
    let dist = (cbc + 3564 - pbc) % 3564;
    assert!(r.is_err() == (dist != period as u32), "trigger period verdict differs from (cur - prev) mod 3564 != P");
    kani::cover!(r.is_ok() && cbc < pbc, "period matched across an orbit wrap");
    kani::cover!(r.is_ok() && cbc > pbc, "period matched inside an orbit");
    kani::cover!(r.is_err() && cbc < pbc, "mismatch across the wrap");
    core::mem::forget(r);
}
