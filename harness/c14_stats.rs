//@ attach: fastpasta/src/stats/stats_collector.rs
//@ mod: verif_stats
// C14 (collector side), C16 (error accounting), C20 (ii) custom count checks.
#![allow(unused_imports, dead_code, clippy::all)]
use super::*;
use crate::stats::StatType;

//@ harness: c20_custom_stats props=C20,C16 tier=quick class=functional covers=4 mem=8 timeout=600 est=60
//@ bounds: arbitrary RDH count (u32), 2 arbitrary trigger-type words, arbitrary configured cdps: Option<u32> and triggers_pht: Option<u32>: an [E9001]/[E9002] custom-check error is added iff the observed value differs from the configured one; absent keys change nothing
#[kani::proof]
#[kani::unwind(9)]
#[kani::stub(alloc::fmt::format, crate::vsup::stub_format)]
#[kani::stub(core::fmt::write, crate::vsup::stub_write)]
fn c20_custom_stats() {
    let mut sc = StatsCollector::default();
    let seen: u32 = kani::any();
    sc.collect(StatType::RDHSeen(seen));
    let t1: u32 = kani::any();
    let t2: u32 = kani::any();
    sc.collect(StatType::TriggerType(t1));
    sc.collect(StatType::TriggerType(t2));
    let pht_true = ((t1 >> 4) & 1) + ((t2 >> 4) & 1);
    let cdps: Option<u32> = kani::any();
    let pht: Option<u32> = kani::any();
    unsafe {
        crate::vsup::VCFG_DYN.cfg = crate::vsup::VCfg { mode: 1, cdps, pht, ..crate::vsup::VCFG0 };
    }
    let before = sc.err_count();
    sc.validate_custom_stats(crate::vsup::vcfg_dyn());
    let e1 = match cdps {
        Some(c) => c != seen,
        None => false,
    };
    let e2 = match pht {
        Some(p) => p != pht_true,
        None => false,
    };
    assert!(sc.err_count() - before == e1 as u64 + e2 as u64, "custom count check: wrong number of errors");
    assert!(sc.any_errors() == (e1 || e2));
    // no reported and no fatal error here, so the iterator yields exactly the custom-check errors
    {
    let mut it = sc.error_stats().errors_as_slice_iter();
    if e1 {
        let m = it.next();
        assert!(m.is_some() && m.unwrap().as_bytes().starts_with(b"[E9001]"), "CDP count mismatch must carry [E9001]");
    }
    if e2 {
        let m = it.next();
        assert!(m.is_some() && m.unwrap().as_bytes().starts_with(b"[E9002]"), "PhT count mismatch must carry [E9002]");
    }
    assert!(it.next().is_none(), "more custom-check errors than mismatches");
    }
    kani::cover!(e1 && e2, "both mismatch");
    kani::cover!(!e1 && !e2 && cdps.is_some() && pht.is_some(), "both configured and equal");
    kani::cover!(cdps.is_none() && pht.is_none(), "nothing configured");
    kani::cover!(e2 && !e1 && pht_true == 2, "PhT mismatch only");
    core::mem::forget(sc);
}

//@ harness: c14_collect_counts props=C14,C16 tier=quick class=functional covers=3 mem=8 timeout=600 est=60
//@ bounds: any 2 messages each of RDHSeen/RDHFiltered/PayloadSize/HBFsSeen (arbitrary u32 values, HBF sum < 2^32), 2 Error messages and optionally 1 Fatal: totals equal the sums; err_count == number of Error messages; any_errors <=> at least one; fatal is not an error count
#[kani::proof]
#[kani::unwind(4)]
fn c14_collect_counts() {
    let mut sc = StatsCollector::default();
    let (a1, a2): (u32, u32) = (kani::any(), kani::any());
    let (f1, f2): (u32, u32) = (kani::any(), kani::any());
    let (p1, p2): (u32, u32) = (kani::any(), kani::any());
    let (h1, h2): (u32, u32) = (kani::any(), kani::any());
    kani::assume((h1 as u64) + (h2 as u64) <= u32::MAX as u64);
    sc.collect(StatType::RDHSeen(a1));
    sc.collect(StatType::RDHFiltered(f1));
    sc.collect(StatType::PayloadSize(p1));
    sc.collect(StatType::HBFsSeen(h1));
    let nerr: u8 = kani::any();
    kani::assume(nerr <= 2);
    if nerr >= 1 {
        sc.collect(StatType::Error("0x40: [E10] x".into()));
    }
    sc.collect(StatType::RDHSeen(a2));
    sc.collect(StatType::RDHFiltered(f2));
    sc.collect(StatType::PayloadSize(p2));
    sc.collect(StatType::HBFsSeen(h2));
    if nerr >= 2 {
        sc.collect(StatType::Error("0x80: [E11] y".into()));
    }
    let fatal: bool = kani::any();
    if fatal {
        sc.collect(StatType::Fatal("boom".into()));
    }
    assert!(sc.rdhs_seen() == a1 as u64 + a2 as u64, "RDHs seen is not the sum");
    assert!(sc.rdh_stats().rdhs_filtered() == f1 as u64 + f2 as u64, "RDHs filtered is not the sum");
    assert!(sc.payload_size() == p1 as u64 + p2 as u64, "payload size is not the sum");
    assert!(sc.hbfs_seen() == h1 + h2, "HBFs seen is not the sum");
    assert!(sc.err_count() == nerr as u64, "error total is not the number of Error messages");
    assert!(sc.any_errors() == (nerr > 0));
    assert!(sc.any_fatal_err() == fatal);
    kani::cover!(nerr == 2 && fatal, "two errors and a fatal");
    kani::cover!(nerr == 0 && !fatal, "clean");
    kani::cover!(a1 == u32::MAX && a2 == u32::MAX, "counts beyond 2^32");
    core::mem::forget(sc);
}

//@ harness: c14_trigger_bits props=C14 tier=quick class=functional covers=2 mem=8 timeout=600 est=30
//@ bounds: any 3 trigger-type words: each of the 20 per-bit counters equals the number of words with that bit set (bits 0..14 and 27..31)
#[kani::proof]
#[kani::unwind(21)]
fn c14_trigger_bits() {
    let mut sc = StatsCollector::default();
    let t: [u32; 3] = kani::any();
    sc.collect(StatType::TriggerType(t[0]));
    sc.collect(StatType::TriggerType(t[1]));
    sc.collect(StatType::TriggerType(t[2]));
    let ts = *sc.rdh_stats().trigger_stats();
    let cnt = |bit: u32| -> u32 { ((t[0] >> bit) & 1) + ((t[1] >> bit) & 1) + ((t[2] >> bit) & 1) };
    assert!(ts.orbit() == cnt(0) && ts.hb() == cnt(1) && ts.hbr() == cnt(2) && ts.hc() == cnt(3));
    assert!(ts.pht() == cnt(4) && ts.pp() == cnt(5) && ts.cal() == cnt(6) && ts.sot() == cnt(7));
    assert!(ts.eot() == cnt(8) && ts.soc() == cnt(9) && ts.eoc() == cnt(10) && ts.tf() == cnt(11));
    assert!(ts.fe_rst() == cnt(12) && ts.rt() == cnt(13) && ts.rs() == cnt(14));
    assert!(ts.lhc_gap1() == cnt(27) && ts.lhc_gap2() == cnt(28) && ts.tpc_sync() == cnt(29) && ts.tpc_rst() == cnt(30) && ts.tof() == cnt(31));
    kani::cover!(ts.pht() == 3, "three physics triggers");
    kani::cover!(ts.tof() == 1 && ts.orbit() == 2, "mixed bits");
    core::mem::forget(sc);
}

//@ harness: c14_links_fee props=C14 tier=quick class=functional covers=2 mem=10 timeout=900 est=60
//@ bounds: any 3 LinksObserved and 3 FeeId messages, then finalize: links are the sorted multiset of the observed links; FEE IDs are the distinct values in first-occurrence order; first RunTriggerType/SystemId/DataFormat/RdhVersion are kept
#[kani::proof]
#[kani::unwind(5)]
fn c14_links_fee() {
    let mut sc = StatsCollector::default();
    let l: [u8; 3] = kani::any();
    let f: [u16; 3] = kani::any();
    let ver: u8 = kani::any();
    let df: u8 = kani::any();
    sc.collect(StatType::RdhVersion(ver));
    sc.collect(StatType::DataFormat(df));
    let mut i = 0;
    while i < 3 {
        sc.collect(StatType::LinksObserved(l[i]));
        sc.collect(StatType::FeeId(f[i]));
        i += 1;
    }
    sc.rdh_stats.finalize();
    let ls = sc.rdh_stats().links_as_slice();
    assert!(ls.len() == 3);
    assert!(ls[0] <= ls[1] && ls[1] <= ls[2], "links not sorted");
    // same multiset
    let sum_in = l[0] as u32 + l[1] as u32 + l[2] as u32;
    let sum_out = ls[0] as u32 + ls[1] as u32 + ls[2] as u32;
    let min_in = if l[0] <= l[1] && l[0] <= l[2] { l[0] } else if l[1] <= l[2] { l[1] } else { l[2] };
    let max_in = if l[0] >= l[1] && l[0] >= l[2] { l[0] } else if l[1] >= l[2] { l[1] } else { l[2] };
    assert!(sum_in == sum_out && ls[0] == min_in && ls[2] == max_in, "links altered");
    let fs = sc.rdh_stats().fee_ids_as_slice();
    let d1 = f[1] != f[0];
    let d2 = f[2] != f[0] && f[2] != f[1];
    assert!(fs.len() == 1 + d1 as usize + d2 as usize, "FEE IDs not de-duplicated");
    assert!(fs[0] == f[0]);
    if d1 {
        assert!(fs[1] == f[1]);
    }
    if d2 {
        assert!(fs[fs.len() - 1] == f[2]);
    }
    assert!(sc.rdh_stats().rdh_version() == ver && sc.rdh_stats().data_format() == df);
    kani::cover!(d1 && d2, "three distinct FEE IDs");
    kani::cover!(!d1 && !d2 && l[0] > l[1] && l[1] > l[2], "one FEE ID, links in descending order");
    core::mem::forget(sc);
}
