//@ attach: fastpasta/src/lib.rs
//@ mod: verif_c04u
// C04 items 3, 6 — total functions on arbitrary arguments never panic (release semantics).
#![allow(unused_imports, dead_code, clippy::all)]
use crate::analyze::validators::rdh::RdhCruSanityValidator;
use crate::analyze::validators::rdh_running::RdhCruRunningChecker;
use crate::words::its::data_words::{ib_data_word_id_to_lane, lane_id_to_lane_number, ob_data_word_id_to_connector, ob_data_word_id_to_input_number_connector, ob_data_word_id_to_lane};
use crate::words::its::status_words::util::is_lane_active;
use crate::words::its::{feeid_from_layer_stave, layer_from_feeid, stave_number_from_feeid, Layer, Stave};
use alice_protocol_reader::prelude::{RdhCru, SerdeRdh, RDH};

//@ harness: c04_stave_from_feeid props=C04 tier=quick class=crash covers=2 mem=6 timeout=300 est=10
//@ bounds: all 65536 FEE ids: Stave::from_feeid / Layer::from_stave never panic; layer and stave fields are bits 14:12 and 5:0
#[kani::proof]
fn c04_stave_from_feeid() {
    let fee: u16 = kani::any();
    let s = Stave::from_feeid(fee);
    let l = Layer::from_stave(&s);
    assert!(s.layer() == ((fee >> 12) & 7) as u8 && s.stave() == (fee & 0x3F) as u8);
    match s.layer() {
        0..=2 => assert!(l == Layer::Inner),
        3 | 4 => assert!(l == Layer::Middle),
        _ => assert!(l == Layer::Outer),
    }
    kani::cover!(s.layer() == 7, "non-existent layer 7");
    kani::cover!(s.layer() == 3, "middle layer");
}

//@ harness: c04_lane_fns props=C04 tier=quick class=crash covers=2 mem=6 timeout=300 est=10
//@ bounds: all 256 data-word ids x all 2^32 lane masks: lane-number helpers and is_lane_active never panic (dev-profile shift overflow for lane >= 32 is reported as a note)
#[kani::proof]
fn c04_lane_fns() {
    let id: u8 = kani::any();
    let mask: u32 = kani::any();
    let a = ob_data_word_id_to_lane(id);
    let b = ib_data_word_id_to_lane(id);
    let c = lane_id_to_lane_number(id, kani::any());
    let d = ob_data_word_id_to_connector(id);
    let e = ob_data_word_id_to_input_number_connector(id);
    assert!(b < 32 && d < 4 && e < 8);
    // (covers first: `1 << lane` for lane >= 32 fails rustc's dev-profile overflow check, after which
    // Kani assumes the overflow away; it is reported as a dev-profile-only note)
    kani::cover!(a >= 32, "OB lane number >= 32 (id outside the valid ranges)");
    kani::cover!(a < 28, "valid OB lane");
    let _ = is_lane_active(a, mask);
    let _ = is_lane_active(c, mask);
}

fn rdh_validators(n: usize) {
    let mut sv = RdhCruSanityValidator::<RdhCru>::new();
    let mut rc = RdhCruRunningChecker::<RdhCru>::new();
    let mut any_err = false;
    let mut i = 0;
    while i < n {
        let b: [u8; 64] = kani::any();
        let rdh = RdhCru::from_buf(&b).unwrap();
        let r1 = sv.sanity_check(&rdh);
        let r2 = rc.check(&rdh);
        any_err |= r1.is_err() || r2.is_err();
        core::mem::forget((r1, r2));
        i += 1;
    }
    kani::cover!(any_err, "some header rejected");
    kani::cover!(!any_err, "all accepted");
    core::mem::forget((sv, rc));
}

//@ harness: c04_rdh_validators props=C04 tier=quick class=crash covers=2 mem=16 timeout=1200 est=200
//@ bounds: 1 ARBITRARY 64-byte header through the RDH sanity validator and the RDH running checker (no precondition at all), all CBMC memory-safety checks on: no panic, no memory error
#[kani::proof]
#[kani::unwind(2)]
#[kani::stub(alloc::fmt::format, crate::vsup::stub_format)]
#[kani::stub(core::fmt::write, crate::vsup::stub_write)]
fn c04_rdh_validators() {
    rdh_validators(1);
}

//@ harness: c04_rdh_validators2 props=C04 tier=thorough required=no class=crash covers=2 mem=28 timeout=900 est=900
//@ bounds: 2 arbitrary headers in sequence
#[kani::proof]
#[kani::unwind(3)]
#[kani::stub(alloc::fmt::format, crate::vsup::stub_format)]
#[kani::stub(core::fmt::write, crate::vsup::stub_write)]
fn c04_rdh_validators2() {
    rdh_validators(2);
}
