//@ attach: fastpasta/src/stats/stats_collector/its_stats/alpide_stats.rs
//@ mod: verif_c15a
// C15 (drift-detection half), ALPIDE statistics: every readout-flag counter is compared.
#![allow(unused_imports, dead_code, clippy::all)]
use super::*;

fn differs(trailer: u8) {
    let a = AlpideStats::default();
    let mut b = AlpideStats::default();
    b.log_readout_flags(trailer);
    let same = a.validate_other(&a);
    assert!(same.is_ok(), "ALPIDE statistics are not accepted against themselves");
    let r1 = a.validate_other(&b);
    assert!(r1.is_err(), "a changed ALPIDE readout-flag counter in the reference was not detected");
    let r2 = b.validate_other(&a);
    assert!(r2.is_err(), "a changed collected ALPIDE readout-flag counter was not detected");
    core::mem::forget((same, r1, r2));
}

//@ harness: c15_alpide_flags props=C15 tier=quick class=functional covers=1 mem=10 timeout=900 est=60
//@ bounds: ALPIDE statistics differing by ONE logged chip trailer with readout flags 0xB8 (busy violation), 0xBC (data overrun), 0xBE (transmission in fatal), 0xB4 / 0xB2 / 0xB1 (flushed incomplete / strobe extended / busy transition), 0xB0 (trailer count only): rejected in both directions; identical statistics accepted
#[kani::proof]
#[kani::unwind(9)]
#[kani::stub(alloc::fmt::format, crate::vsup::stub_format)]
#[kani::stub(core::fmt::write, crate::vsup::stub_write)]
fn c15_alpide_flags() {
    differs(0xB8);
    differs(0xBC);
    differs(0xBE);
    differs(0xB4);
    differs(0xB2);
    differs(0xB1);
    differs(0xB0);
    kani::cover!(true, "reached");
}
