//@ attach: fastpasta/src/analyze/validators/rdh_running.rs
//@ mod: verif_c10r
// C10 K2 — RDH running checks == documented automaton.
#![allow(unused_imports, dead_code, clippy::all)]
use super::*;
use alice_protocol_reader::prelude::{RdhCru, SerdeRdh, RDH};

include!(concat!(env!("VERIF_ROOT"), "/oracle/rdh.rs"));

fn running(n: usize) {
    let mut c = RdhCruRunningChecker::<RdhCru>::new();
    let mut m = RefRdhRunning::new();
    let mut any_err = false;
    let mut any_ok_after_stop = false;
    let mut i = 0;
    while i < n {
        let b: [u8; 64] = kani::any();
        // the property's precondition: the sequence begins at an HBF start, first two pages 0 and 1
        if i == 0 {
            kani::assume(r_pages_counter(&b) == 0);
        }
        if i == 1 {
            kani::assume(r_pages_counter(&b) == 1);
        }
        let was_stop = m.have_last && m.last_stop == 1;
        let err = c.check(&RdhCru::from_buf(&b).unwrap()).is_err();
        let want = m.step(&b);
        assert!(err == want, "RDH running verdict differs from the documented automaton");
        any_err |= err;
        any_ok_after_stop |= !err && was_stop;
        i += 1;
    }
    kani::cover!(!any_err, "whole history accepted");
    kani::cover!(any_err, "some header rejected");
    kani::cover!(any_ok_after_stop, "header accepted right after a stop (orbit changed, page 0)");
}

//@ harness: c10_running3 props=C10,C01,C02 tier=quick class=functional covers=3 mem=12 timeout=1200 est=150
//@ bounds: every history of 3 arbitrary 64-byte headers with pages_counter 0 then 1 (HBF start)
#[kani::proof]
#[kani::unwind(4)]
#[kani::stub(alloc::fmt::format, crate::vsup::stub_format)]
#[kani::stub(core::fmt::write, crate::vsup::stub_write)]
fn c10_running3() {
    running(3);
}

//@ harness: c10_running5 props=C10,C01,C02 tier=thorough class=functional covers=3 mem=24 timeout=3000 est=900
//@ bounds: every history of 5 arbitrary 64-byte headers with pages_counter 0 then 1 (HBF start)
#[kani::proof]
#[kani::unwind(6)]
#[kani::stub(alloc::fmt::format, crate::vsup::stub_format)]
#[kani::stub(core::fmt::write, crate::vsup::stub_write)]
fn c10_running5() {
    running(5);
}

//@ harness: c10_running_step props=C10,C01,C02 tier=quick class=functional covers=3 mem=10 timeout=900 est=90
//@ bounds: ONE arbitrary header from an ARBITRARY checker state (expected page counter any u16 < 0xFFFF, increment 1, arbitrary previous header): inductive step of the automaton equivalence, covers histories of any length
#[kani::proof]
#[kani::stub(alloc::fmt::format, crate::vsup::stub_format)]
#[kani::stub(core::fmt::write, crate::vsup::stub_write)]
fn c10_running_step() {
    let prev: [u8; 64] = kani::any();
    let expect: u16 = kani::any();
    kani::assume(expect < 0xFFFF); // 65535 consecutive pages without a stop bit: outside (dev-profile add overflow, see C04)
    let mut c = RdhCruRunningChecker::<RdhCru>::new();
    // representation invariant of a checker that has seen >= 2 headers of a stream starting pages 0,1
    c.first_rdh_cru = Some(RdhCru::from_buf(&prev).unwrap());
    c.second_rdh_cru = Some(RdhCru::from_buf(&prev).unwrap());
    c.expect_pages_counter_increment = 1;
    c.expect_pages_counter = expect;
    c.last_rdh_cru = Some(RdhCru::from_buf(&prev).unwrap());
    let mut m = RefRdhRunning::new();
    m.expect_page = expect;
    m.seen = 2;
    m.have_last = true;
    m.last_stop = r_stop_bit(&prev);
    m.last_orbit = r_orbit(&prev);
    m.last_trigger = r_trigger_type(&prev);
    m.last_fee = r_fee_id(&prev);
    let b: [u8; 64] = kani::any();
    let err = c.check(&RdhCru::from_buf(&b).unwrap()).is_err();
    let want = m.step(&b);
    assert!(err == want, "RDH running verdict differs from the documented automaton (inductive step)");
    // the post-state is again related
    assert!(c.expect_pages_counter == m.expect_page);
    assert!(c.expect_pages_counter_increment == 1);
    let l = c.last_rdh_cru.as_ref().unwrap();
    assert!(l.stop_bit() == m.last_stop && l.rdh1().orbit == m.last_orbit && l.fee_id() == m.last_fee && l.trigger_type() == m.last_trigger);
    kani::cover!(!err, "accepted");
    kani::cover!(err && r_stop_bit(&b) <= 1 && r_pages_counter(&b) == expect, "rejected for orbit/trigger/fee rule");
    kani::cover!(err && r_pages_counter(&b) != expect, "rejected for page counter");
}
