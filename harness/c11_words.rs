//@ attach: fastpasta/src/analyze/validators/its.rs
//@ mod: verif_c11
// C11 — word-level sanity predicates are exact for all 80-bit values.
#![allow(unused_imports, dead_code, clippy::all)]
use super::data_words::{ib::IbDataWordValidator, ob::ObDataWordValidator, DataWordSanityChecker};
use super::status_word::StatusWordSanityChecker;
use crate::words::its::data_words::ob_data_word_id_to_lane;
use crate::words::its::status_words::{ddw::Ddw0, ihw::Ihw, tdh::Tdh, tdt::Tdt, StatusWord};

include!(concat!(env!("VERIF_ROOT"), "/oracle/words.rs"));

//@ harness: c11_ihw props=C11,C01,C02 tier=quick class=functional covers=2 mem=6 timeout=300
//@ bounds: all 2^80 word values
#[kani::proof]
#[kani::stub(alloc::fmt::format, crate::vsup::stub_format)]
#[kani::stub(core::fmt::write, crate::vsup::stub_write)]
fn c11_ihw() {
    let w: [u8; 10] = kani::any();
    let ihw = Ihw::from_buf(&w).unwrap();
    let ok = StatusWordSanityChecker::check_ihw(&ihw).is_ok();
    assert!(ok == ref_ihw_sane(&w), "IHW sanity verdict differs from the documented rule");
    assert!(ihw.active_lanes() == ref_ihw_active_lanes(&w));
    kani::cover!(ok, "accepted");
    kani::cover!(!ok && w[9] == ID_IHW, "rejected for reserved bits");
}

//@ harness: c11_tdh props=C11,C01,C02 tier=quick class=functional covers=3 mem=6 timeout=300
//@ bounds: all 2^80 word values
#[kani::proof]
#[kani::stub(alloc::fmt::format, crate::vsup::stub_format)]
#[kani::stub(core::fmt::write, crate::vsup::stub_write)]
fn c11_tdh() {
    let w: [u8; 10] = kani::any();
    let tdh = Tdh::from_buf(&w).unwrap();
    let ok = StatusWordSanityChecker::check_tdh(&tdh).is_ok();
    assert!(ok == ref_tdh_sane(&w), "TDH sanity verdict differs from the documented rule");
    // field decoding used by every stateful rule
    assert!(tdh.trigger_type() == ref_tdh_trigger_type(&w));
    assert!((tdh.internal_trigger() == 1) == ref_tdh_internal(&w));
    assert!((tdh.no_data() == 1) == ref_tdh_no_data(&w));
    assert!((tdh.continuation() == 1) == ref_tdh_continuation(&w));
    assert!(tdh.trigger_bc() == ref_tdh_bc(&w));
    assert!(tdh.trigger_orbit() == ref_tdh_orbit(&w));
    kani::cover!(ok, "accepted");
    kani::cover!(!ok && w[9] == ID_TDH && w[8] == 0 && w[3] & 0xF0 == 0 && w[1] & 0x80 == 0, "rejected for the trigger rule");
    kani::cover!(!ok && w[9] == ID_TDH && ref_tdh_trigger_type(&w) != 0, "rejected for reserved bits");
}

//@ harness: c11_tdt props=C11,C01,C02 tier=quick class=functional covers=2 mem=6 timeout=300
//@ bounds: all 2^80 word values
#[kani::proof]
#[kani::stub(alloc::fmt::format, crate::vsup::stub_format)]
#[kani::stub(core::fmt::write, crate::vsup::stub_write)]
fn c11_tdt() {
    let w: [u8; 10] = kani::any();
    let tdt = Tdt::from_buf(&w).unwrap();
    let ok = StatusWordSanityChecker::check_tdt(&tdt).is_ok();
    assert!(ok == ref_tdt_sane(&w), "TDT sanity verdict differs from the documented rule");
    assert!(tdt.packet_done() == ref_tdt_packet_done(&w));
    kani::cover!(ok, "accepted");
    kani::cover!(!ok && w[9] == ID_TDT, "rejected for reserved bits");
}

//@ harness: c11_ddw0 props=C11,C01,C02 tier=quick class=functional covers=3 mem=6 timeout=300
//@ bounds: all 2^80 word values
#[kani::proof]
#[kani::stub(alloc::fmt::format, crate::vsup::stub_format)]
#[kani::stub(core::fmt::write, crate::vsup::stub_write)]
fn c11_ddw0() {
    let w: [u8; 10] = kani::any();
    let ddw0 = Ddw0::from_buf(&w).unwrap();
    let ok = StatusWordSanityChecker::check_ddw0(&ddw0).is_ok();
    assert!(ok == ref_ddw0_sane(&w), "DDW0 sanity verdict differs from the documented rule");
    kani::cover!(ok, "accepted");
    kani::cover!(!ok && w[9] == ID_DDW0 && w[8] & 0xF0 != 0 && w[8] & 5 == 0 && w[7] == 0, "rejected for the index only");
    kani::cover!(!ok && w[9] == ID_DDW0 && w[8] & 0xF0 == 0, "rejected for reserved bits only");
}

//@ harness: c11_data_id props=C11,C01,C02 tier=quick class=functional covers=2 mem=6 timeout=300
//@ bounds: all 2^80 word values (verdict depends on the id byte only: asserted)
#[kani::proof]
#[kani::stub(alloc::fmt::format, crate::vsup::stub_format)]
#[kani::stub(core::fmt::write, crate::vsup::stub_write)]
fn c11_data_id() {
    let w: [u8; 10] = kani::any();
    let ok = DataWordSanityChecker::check_any(&w).is_ok();
    assert!(ok == ref_is_data_id(w[9]), "data word ID verdict differs from the documented ranges");
    kani::cover!(ok, "accepted");
    kani::cover!(!ok, "rejected");
}

//@ harness: c11_ib_lane props=C11,C01,C02 tier=quick class=functional covers=2 mem=6 timeout=300
//@ bounds: all words with an inner-barrel class id (3 msb = 001) x all 2^32 active-lane masks
#[kani::proof]
#[kani::stub(alloc::fmt::format, crate::vsup::stub_format)]
#[kani::stub(core::fmt::write, crate::vsup::stub_write)]
fn c11_ib_lane() {
    let w: [u8; 10] = kani::any();
    let lanes: u32 = kani::any();
    kani::assume(ref_is_ib_class(w[9]));
    let ok = IbDataWordValidator::check(&w, lanes).is_ok();
    assert!(ok == ref_lane_active(w[9] & 0x1F, lanes), "IB lane-active verdict differs");
    kani::cover!(ok, "accepted");
    kani::cover!(!ok, "rejected");
}

//@ harness: c11_ob_lane props=C11,C01,C02 tier=quick class=functional covers=3 mem=10 timeout=600 est=90
//@ bounds: all words with a middle/outer class id (3 msb = 010; of the input-7 ids only 0x5F, see C04) x all 2^28 IHW active-lane masks
#[kani::proof]
#[kani::unwind(4)] // Vec<String> of at most 2 messages: drop loop
#[kani::stub(alloc::fmt::format, crate::vsup::stub_format)]
#[kani::stub(core::fmt::write, crate::vsup::stub_write)]
fn c11_ob_lane() {
    let w: [u8; 10] = kani::any();
    let lanes: u32 = kani::any();
    kani::assume(ref_is_ob_class(w[9]));
    kani::assume(lanes >> 28 == 0); // an IHW carries 28 lane bits
    // ids 0x47/0x4F/0x57 (input 7) make `1 << lane` overflow in the dev profile Kani compiles
    // (lane 78/93/108); release wraps. They are covered by the C04 crash-class harness as a
    // dev-profile-only note; here input 7 is represented by 0x5F (lane 28, no overflow).
    kani::assume(w[9] & 7 <= 6 || w[9] == 0x5F);
    let ok = ObDataWordValidator::check(&w, lanes).is_ok();
    let input = w[9] & 7;
    let expect = input <= 6 && ref_lane_active(ref_ob_lane(w[9]), lanes);
    assert!(ok == expect, "OB data word verdict differs (lane active and input <= 6)");
    if input <= 6 {
        assert!(ob_data_word_id_to_lane(w[9]) == ref_ob_lane(w[9]), "lane != 7*connector+input");
    }
    kani::cover!(ok, "accepted");
    kani::cover!(!ok && input <= 6, "rejected: lane inactive");
    kani::cover!(!ok && input == 7, "rejected: input 7");
}
