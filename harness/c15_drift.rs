//@ attach: fastpasta/src/stats/stats_collector.rs
//@ mod: verif_c15
// C15 (drift-detection half): every statistic the collector gathers is compared by
// validate_other_stats: a collector that differs from the reference in ONE collected statistic is
// rejected; identical collectors are accepted. Collectors are built through the public collect()
// API, one extra message with a symbolic value on an otherwise identical background.
#![allow(unused_imports, dead_code, clippy::all)]
use super::*;
use crate::stats::{StatType, SystemId};

fn background(with_alpide: bool) -> StatsCollector {
    let mut c = if with_alpide { StatsCollector::with_alpide_stats() } else { StatsCollector::default() };
    c.collect(StatType::RDHSeen(10));
    c.collect(StatType::PayloadSize(1000));
    c.collect(StatType::LinksObserved(3));
    c.collect(StatType::FeeId(0x1003));
    c.collect(StatType::TriggerType(0x6A03));
    c
}

/// `extra` is collected by B only: B's statistics differ from A's in exactly what `extra` records
fn drift(extra: StatType, with_alpide: bool) {
    let a = background(with_alpide);
    let mut b = background(with_alpide);
    b.collect(extra);
    let same = a.validate_other_stats(&a, true);
    assert!(same.is_ok(), "a collector is not accepted against itself");
    let r1 = a.validate_other_stats(&b, true);
    assert!(r1.is_err(), "a changed statistic in the reference file was not detected");
    let r2 = b.validate_other_stats(&a, true);
    assert!(r2.is_err(), "a changed collected statistic was not detected");
    kani::cover!(true, "reached");
    core::mem::forget((same, r1, r2));
    core::mem::forget((a, b));
}

fn nz32() -> u32 {
    let v: u32 = kani::any();
    kani::assume(v != 0);
    v
}

macro_rules! D {
    ($name:ident, $body:expr) => {
        #[kani::proof]
        #[kani::unwind(6)]
        #[kani::stub(alloc::fmt::format, crate::vsup::stub_format)]
        #[kani::stub(core::fmt::write, crate::vsup::stub_write)]
        fn $name() {
            $body
        }
    };
}

//@ harness: c15_rdhs_seen props=C15 tier=quick class=functional covers=1 mem=10 timeout=900 est=40
//@ bounds: reference collector vs the same collector with any non-zero additional RDHSeen count: mismatch reported in both directions; identical collectors accepted
D!(c15_rdhs_seen, drift(StatType::RDHSeen(nz32()), false));
//@ harness: c15_rdhs_filtered props=C15 tier=quick class=functional covers=1 mem=10 timeout=900 est=40
//@ bounds: same for RDHFiltered
D!(c15_rdhs_filtered, drift(StatType::RDHFiltered(nz32()), false));
//@ harness: c15_payload_size props=C15 tier=quick class=functional covers=1 mem=10 timeout=900 est=40
//@ bounds: same for PayloadSize
D!(c15_payload_size, drift(StatType::PayloadSize(nz32()), false));
//@ harness: c15_hbfs props=C15 tier=quick class=functional covers=1 mem=10 timeout=900 est=40
//@ bounds: same for HBFsSeen
D!(c15_hbfs, drift(StatType::HBFsSeen(nz32()), false));
//@ harness: c15_rdh_version props=C15 tier=quick class=functional covers=1 mem=10 timeout=900 est=40
//@ bounds: RDH version recorded (any u8) vs not recorded
D!(c15_rdh_version, drift(StatType::RdhVersion(kani::any()), false));
//@ harness: c15_data_format props=C15 tier=quick class=functional covers=1 mem=10 timeout=900 est=40
//@ bounds: data format recorded (any u8) vs not recorded
D!(c15_data_format, drift(StatType::DataFormat(kani::any()), false));
//@ harness: c15_link props=C15 tier=quick class=functional covers=1 mem=10 timeout=900 est=40
//@ bounds: one additional observed link (any u8)
D!(c15_link, drift(StatType::LinksObserved(kani::any()), false));
//@ harness: c15_fee props=C15 tier=quick class=functional covers=1 mem=10 timeout=900 est=40
//@ bounds: one additional FEE ID (any u16 other than the one already seen)
D!(c15_fee, {
    let f: u16 = kani::any();
    kani::assume(f != 0x1003);
    drift(StatType::FeeId(f), false)
});
//@ harness: c15_system_id props=C15 tier=quick class=functional covers=1 mem=10 timeout=900 est=40
//@ bounds: system id recorded vs not recorded
D!(c15_system_id, drift(StatType::SystemId(SystemId::ITS), false));
//@ harness: c15_layer_stave props=C15 tier=quick class=functional covers=1 mem=10 timeout=900 est=40
//@ bounds: one additional layer/stave pair (any values)
D!(c15_layer_stave, drift(StatType::LayerStaveSeen { layer: kani::any(), stave: kani::any() }, false));
//@ harness: c15_error props=C15 tier=quick class=functional covers=1 mem=10 timeout=900 est=40
//@ bounds: one additional reported error
D!(c15_error, drift(StatType::Error("0x40: [E10] x".into()), false));
//@ harness: c15_fatal props=C15 tier=quick class=functional covers=1 mem=10 timeout=900 est=40
//@ bounds: a fatal error vs none
D!(c15_fatal, drift(StatType::Fatal("boom".into()), false));
//@ harness: c15_trigger_bits_a props=C15 tier=quick class=functional covers=1 mem=12 timeout=900 est=80
//@ bounds: one additional trigger-type word with exactly one counted bit set, for each of bits 0..=6: each per-bit counter is compared
D!(c15_trigger_bits_a, {
    drift(StatType::TriggerType(1 << 0), false);
    drift(StatType::TriggerType(1 << 1), false);
    drift(StatType::TriggerType(1 << 2), false);
    drift(StatType::TriggerType(1 << 3), false);
    drift(StatType::TriggerType(1 << 4), false);
    drift(StatType::TriggerType(1 << 5), false);
    drift(StatType::TriggerType(1 << 6), false);
});
//@ harness: c15_trigger_bits_b props=C15 tier=quick class=functional covers=1 mem=12 timeout=900 est=80
//@ bounds: same for bits 7..=14
D!(c15_trigger_bits_b, {
    drift(StatType::TriggerType(1 << 7), false);
    drift(StatType::TriggerType(1 << 8), false);
    drift(StatType::TriggerType(1 << 9), false);
    drift(StatType::TriggerType(1 << 10), false);
    drift(StatType::TriggerType(1 << 11), false);
    drift(StatType::TriggerType(1 << 12), false);
    drift(StatType::TriggerType(1 << 13), false);
    drift(StatType::TriggerType(1 << 14), false);
});
//@ harness: c15_trigger_bits_c props=C15 tier=quick class=functional covers=1 mem=12 timeout=900 est=80
//@ bounds: same for bits 27..=31
D!(c15_trigger_bits_c, {
    drift(StatType::TriggerType(1 << 27), false);
    drift(StatType::TriggerType(1 << 28), false);
    drift(StatType::TriggerType(1 << 29), false);
    drift(StatType::TriggerType(1 << 30), false);
    drift(StatType::TriggerType(1 << 31), false);
});
