//@ attach: fastpasta/src/analyze/validators/its/its_payload_fsm_cont.rs
//@ mod: verif_c09
// C09 K1/K3 — the payload state machine is bisimilar to the documented diagram; C19: from_id.
#![allow(unused_imports, dead_code, clippy::all)]
use super::ITS_Payload_Continuous::Variant as V;
use super::{AmbigiousError, ItsPayloadFsmContinuous};
use crate::analyze::validators::its::lib::ItsPayloadWord;

include!(concat!(env!("VERIF_ROOT"), "/oracle/words.rs"));
include!(concat!(env!("VERIF_ROOT"), "/oracle/fsm.rs"));

fn impl_state_matches(f: &ItsPayloadFsmContinuous, m: MState) -> bool {
    match m {
        MState::Ihw => matches!(f.state_machine, V::InitialIHW_(_) | V::IHW_By_WasDdw0(_)),
        MState::Tdh => matches!(f.state_machine, V::TDH_By_WasIhw(_)),
        MState::AfterTdhNoData => matches!(f.state_machine, V::DDW0_or_TDH_or_IHW_By_NoDataTrue(_)),
        MState::Data => matches!(f.state_machine, V::DATA_By_NoDataFalse(_) | V::DATA_By_WasData(_)),
        MState::AfterTdtDone => matches!(f.state_machine, V::DDW0_or_TDH_or_IHW_By_WasTDTpacketDoneTrue(_)),
        MState::CIhw => matches!(f.state_machine, V::c_IHW_By_WasTDTpacketDoneFalse(_)),
        MState::CTdh => matches!(f.state_machine, V::c_TDH_By_Next(_)),
        MState::CData => matches!(f.state_machine, V::c_DATA_By_Next(_) | V::c_DATA_By_WasData(_)),
    }
}

fn kind_matches(r: &Result<ItsPayloadWord, AmbigiousError>, k: MKind) -> bool {
    match (r, k) {
        (Ok(ItsPayloadWord::IHW), MKind::Ihw) => true,
        (Ok(ItsPayloadWord::IHW_continuation), MKind::IhwCont) => true,
        (Ok(ItsPayloadWord::TDH), MKind::Tdh) => true,
        (Ok(ItsPayloadWord::TDH_continuation), MKind::TdhCont) => true,
        (Ok(ItsPayloadWord::TDH_after_packet_done), MKind::TdhAfterChoice) => true,
        (Ok(ItsPayloadWord::TDT), MKind::Tdt) => true,
        (Ok(ItsPayloadWord::DDW0), MKind::Ddw0) => true,
        (Ok(ItsPayloadWord::CDW), MKind::Cdw) => true,
        (Ok(ItsPayloadWord::DataWord), MKind::Data) => true,
        (Err(_), MKind::Illegal) => true,
        _ => false,
    }
}

fn bisim(n: usize) {
    let mut f = ItsPayloadFsmContinuous::new();
    let mut m = MState::Ihw;
    let mut i = 0;
    while i < n {
        assert!(impl_state_matches(&f, m), "implementation state is not the diagram's state");
        let w: [u8; 10] = kani::any();
        let r = f.advance(&w);
        let (k, next) = ref_fsm_step(m, &w);
        assert!(kind_matches(&r, k), "word classified differently from the diagram");
        if k == MKind::Illegal {
            // which ambiguity is reported is part of the documented contract (E990/E991/E992)
            match m {
                MState::Data | MState::CData => assert!(matches!(r, Err(AmbigiousError::DW_or_TDT_CDW))),
                MState::AfterTdhNoData => assert!(matches!(r, Err(AmbigiousError::TDH_or_DDW0))),
                MState::AfterTdtDone => assert!(matches!(r, Err(AmbigiousError::DDW0_or_TDH_IHW))),
                _ => assert!(false, "illegal word in a single-successor state"),
            }
            kani::cover!(m == MState::Data, "illegal word in Data");
            kani::cover!(m == MState::CData, "illegal word in c_Data");
            kani::cover!(m == MState::AfterTdhNoData, "illegal word after no-data TDH");
            kani::cover!(m == MState::AfterTdtDone, "illegal word after TDT packet_done");
            return; // the diagram prescribes nothing after an illegal word
        }
        m = next;
        i += 1;
    }
    assert!(impl_state_matches(&f, m), "implementation state is not the diagram's state (final)");
    kani::cover!(m == MState::Ihw, "ends expecting IHW (after DDW0)");
    kani::cover!(m == MState::Tdh, "ends expecting TDH");
    kani::cover!(m == MState::AfterTdhNoData, "ends after no-data TDH");
    kani::cover!(m == MState::Data, "ends in Data");
    kani::cover!(m == MState::AfterTdtDone, "ends after TDT packet_done");
    kani::cover!(m == MState::CIhw, "ends expecting continuation IHW");
    kani::cover!(m == MState::CTdh, "ends expecting continuation TDH");
    kani::cover!(m == MState::CData, "ends in continuation Data");
}

//@ harness: c09_bisim8 props=C19,C11 also=C09,C01 tier=quick class=functional covers=12 mem=10 timeout=900 est=60
//@ bounds: every sequence of <= 8 arbitrary 80-bit words from the initial state (all 12 implementation states and every edge are reachable within 8 steps: covers)
#[kani::proof]
#[kani::unwind(9)]
fn c09_bisim8() {
    bisim(8);
}

//@ harness: c09_bisim12 props=C09,C01 tier=quick class=functional covers=12 mem=16 timeout=1500 est=90
//@ bounds: every sequence of <= 12 arbitrary 80-bit words from the initial state
#[kani::proof]
#[kani::unwind(13)]
fn c09_bisim12() {
    bisim(12);
}

//@ harness: c09_bisim20 props=C09 tier=thorough class=functional covers=12 mem=24 timeout=3000 est=600
//@ bounds: every sequence of <= 20 arbitrary 80-bit words from the initial state
#[kani::proof]
#[kani::unwind(21)]
fn c09_bisim20() {
    bisim(20);
}

//@ harness: c09_step_any_state props=C09,C01,C11,C02 tier=quick class=functional covers=8 mem=8 timeout=600 est=30
//@ bounds: ONE step from every implementation state reachable by a <= 5-word prefix chosen by the solver, arbitrary word: inductive step of the bisimulation (relation: impl_state_matches)
#[kani::proof]
#[kani::unwind(7)]
fn c09_step_any_state() {
    // reach an arbitrary related pair by an arbitrary legal prefix (<= 5 words reaches all 8 diagram states)
    let mut f = ItsPayloadFsmContinuous::new();
    let mut m = MState::Ihw;
    let n: usize = kani::any();
    kani::assume(n <= 5);
    let mut i = 0;
    while i < 5 {
        if i < n {
            let w: [u8; 10] = kani::any();
            let (k, next) = ref_fsm_step(m, &w);
            kani::assume(k != MKind::Illegal);
            let _ = f.advance(&w);
            m = next;
        }
        i += 1;
    }
    assert!(impl_state_matches(&f, m));
    let w: [u8; 10] = kani::any();
    let r = f.advance(&w);
    let (k, next) = ref_fsm_step(m, &w);
    assert!(kind_matches(&r, k), "word classified differently from the diagram");
    if k != MKind::Illegal {
        assert!(impl_state_matches(&f, next), "successor differs from the diagram");
    }
    kani::cover!(m == MState::Ihw && n > 0, "step from IHW after DDW0");
    kani::cover!(m == MState::Tdh, "step from TDH");
    kani::cover!(m == MState::AfterTdhNoData, "step after no-data TDH");
    kani::cover!(m == MState::Data, "step from Data");
    kani::cover!(m == MState::AfterTdtDone, "step after TDT packet_done");
    kani::cover!(m == MState::CIhw, "step from c_IHW");
    kani::cover!(m == MState::CTdh, "step from c_TDH");
    kani::cover!(m == MState::CData, "step from c_Data");
}

//@ harness: c09_reset props=C09,C12 tier=quick class=functional covers=1 mem=6 timeout=300 est=20
//@ bounds: reset_fsm after any <= 6-word sequence: the next word is classified IHW and TDH is expected after it
#[kani::proof]
#[kani::unwind(7)]
fn c09_reset() {
    let mut f = ItsPayloadFsmContinuous::new();
    let n: usize = kani::any();
    kani::assume(n <= 6);
    let mut i = 0;
    while i < 6 {
        if i < n {
            let w: [u8; 10] = kani::any();
            let _ = f.advance(&w);
        }
        i += 1;
    }
    kani::cover!(n == 6 && !impl_state_matches(&f, MState::Ihw), "reset from a non-initial state");
    f.reset_fsm();
    assert!(impl_state_matches(&f, MState::Ihw));
    let w: [u8; 10] = kani::any();
    let r = f.advance(&w);
    assert!(matches!(r, Ok(ItsPayloadWord::IHW)));
    assert!(impl_state_matches(&f, MState::Tdh));
}

//@ harness: c19_from_id props=C19,C09 tier=quick class=functional covers=2 mem=6 timeout=300 est=10
//@ bounds: all 256 identifier bytes: ItsPayloadWord::from_id (used by the views) == identifier table
#[kani::proof]
#[kani::stub(alloc::fmt::format, crate::vsup::stub_format)]
fn c19_from_id() {
    let id: u8 = kani::any();
    let r = ItsPayloadWord::from_id(id);
    let c = ref_class_by_id(id);
    let ok = match (&r, c) {
        (Ok(ItsPayloadWord::IHW), RefClass::Ihw) => true,
        (Ok(ItsPayloadWord::TDH), RefClass::Tdh) => true,
        (Ok(ItsPayloadWord::TDT), RefClass::Tdt) => true,
        (Ok(ItsPayloadWord::DDW0), RefClass::Ddw0) => true,
        (Ok(ItsPayloadWord::CDW), RefClass::Cdw) => true,
        (Ok(ItsPayloadWord::DataWord), RefClass::Data) => true,
        (Err(_), RefClass::Unknown) => true,
        _ => false,
    };
    assert!(ok, "view classification by id differs from the identifier table");
    kani::cover!(r.is_ok(), "known id");
    kani::cover!(r.is_err(), "unknown id");
    core::mem::forget(r);
}
