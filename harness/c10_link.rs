//@ attach: fastpasta/src/analyze/validators/link_validator.rs
//@ mod: verif_c10l
// C10 K3 / C07 / C02 — RDH-level errors are reported once each, at the RDH's offset, with the RDH
// sanity code; `check sanity` does not run the running checks.
#![allow(unused_imports, dead_code, clippy::all)]
use super::*;
use crate::vsup::VCfg;
use alice_protocol_reader::prelude::{RdhCru, SerdeRdh, RDH};

include!(concat!(env!("VERIF_ROOT"), "/oracle/rdh.rs"));

fn link_first_rdh(cfg: &'static VCfg) {
    let (tx, rx) = flume::unbounded();
    crate::vsup::reset();
    let (mut lv, data_tx) = LinkValidator::<RdhCru, VCfg>::with_chan_capacity(cfg, tx, None);
    let b: [u8; 64] = kani::any();
    let pos: u64 = kani::any();
    kani::assume(pos < (1u64 << 40));
    let rdh = RdhCru::from_buf(&b).unwrap();
    lv.do_rdh_checks(&rdh, pos);
    let o = crate::vsup::observe(&rx);
    let its = cfg.target != 0;
    let sane = ref_rdh_sane(&b, b[0], its);
    let mut m = RefRdhRunning::new();
    let running_err = cfg.mode == 2 && m.step(&b);
    assert!(o.n_err == (!sane) as usize + running_err as usize, "number of RDH errors differs from (sanity violated) + (running rule violated and check all)");
    assert!(o.all_at(pos), "an RDH error does not carry the RDH's offset");
    if !sane {
        assert!(o.any_at(b"[E10]", pos), "RDH sanity violation not reported as [E10] at the RDH's offset");
    }
    kani::cover!(o.n_err == 0, "conforming first RDH");
    kani::cover!(!sane && !running_err, "sanity only");
    kani::cover!(o.n_err == 2 || cfg.mode != 2, "both errors (check all)");
    core::mem::forget(lv);
    core::mem::forget(data_tx);
    core::mem::forget(rx);
}

//@ harness: c10_link_first_all_its props=C10,C07,C02 tier=quick class=functional covers=3 mem=16 timeout=1500 est=200
//@ bounds: LinkValidator::do_rdh_checks, check all its, errors muted (no context rows): ONE arbitrary 64-byte first header at an arbitrary offset < 2^40: #errors = sanity violated + running violated; every error carries the RDH offset; sanity violation => [E10]
#[kani::proof]
#[kani::unwind(4)]
#[kani::stub(alloc::fmt::format, crate::vsup::stub_format)]
#[kani::stub(core::fmt::write, crate::vsup::stub_write)]
#[kani::stub(flume::Sender::send, crate::vsup::stub_send)]
fn c10_link_first_all_its() {
    static CFG: VCfg = VCfg { mode: 2, target: 1, mute: true, ..crate::vsup::VCFG0 };
    link_first_rdh(&CFG);
}

//@ harness: c10_link_first_sanity props=C10,C07,C02 tier=quick class=functional covers=3 mem=16 timeout=1500 est=200
//@ bounds: same under check sanity (no target): the running rules are not applied, the ITS system id is not required
#[kani::proof]
#[kani::unwind(4)]
#[kani::stub(alloc::fmt::format, crate::vsup::stub_format)]
#[kani::stub(core::fmt::write, crate::vsup::stub_write)]
#[kani::stub(flume::Sender::send, crate::vsup::stub_send)]
fn c10_link_first_sanity() {
    static CFG: VCfg = VCfg { mode: 1, target: 0, mute: true, ..crate::vsup::VCFG0 };
    link_first_rdh(&CFG);
}

/// the first header is the crate's own conforming sample (HBF start, page 0, no stop); the second is arbitrary.
fn link_second_rdh(cfg: &'static VCfg) {
    let (tx, rx) = flume::unbounded();
    crate::vsup::reset();
    let (mut lv, data_tx) = LinkValidator::<RdhCru, VCfg>::with_chan_capacity(cfg, tx, None);
    let first = alice_protocol_reader::prelude::test_data::CORRECT_RDH_CRU_V7;
    let mut fb = [0u8; 64];
    fb.copy_from_slice(first.to_byte_slice());
    let pos0: u64 = kani::any();
    kani::assume(pos0 < (1u64 << 40));
    lv.do_rdh_checks(&first, pos0);
    let b: [u8; 64] = kani::any();
    let pos: u64 = kani::any();
    kani::assume(pos < (1u64 << 40) && pos != pos0);
    let rdh = RdhCru::from_buf(&b).unwrap();
    lv.do_rdh_checks(&rdh, pos);
    let o = crate::vsup::observe(&rx);
    let its = cfg.target != 0;
    let sane = ref_rdh_sane(&b, fb[0], its);
    let mut m = RefRdhRunning::new();
    let first_err = cfg.mode == 2 && m.step(&fb);
    let running_err = cfg.mode == 2 && m.step(&b);
    assert!(!first_err, "oracle rejects the sample header");
    assert!(o.n_err == (!sane) as usize + running_err as usize, "second RDH: number of RDH errors differs from (sanity violated) + (running rule violated and check all)");
    assert!(o.all_at(pos), "an RDH error of the second header does not carry that header's offset");
    if !sane {
        assert!(o.any_at(b"[E10]", pos), "RDH sanity violation of the second header not reported as [E10] at its offset");
    }
    kani::cover!(o.n_err == 0, "conforming second RDH");
    kani::cover!(!sane && !running_err, "sanity only");
    kani::cover!(o.n_err == 2 || cfg.mode != 2, "both errors (check all)");
    core::mem::forget(lv);
    core::mem::forget(data_tx);
    core::mem::forget(rx);
}

//@ harness: c10_link_second_all_its props=C10,C07 also=C02 tier=quick class=functional covers=3 mem=16 timeout=1500 est=250
//@ bounds: LinkValidator::do_rdh_checks, check all its, muted: conforming sample header (HBF start) then ONE arbitrary 64-byte second header at an arbitrary other offset: #errors = sanity violated (Header ID relative to the first) + running violated; every error carries the SECOND header's offset
#[kani::proof]
#[kani::unwind(4)]
#[kani::stub(alloc::fmt::format, crate::vsup::stub_format)]
#[kani::stub(core::fmt::write, crate::vsup::stub_write)]
#[kani::stub(flume::Sender::send, crate::vsup::stub_send)]
fn c10_link_second_all_its() {
    static CFG: VCfg = VCfg { mode: 2, target: 1, mute: true, ..crate::vsup::VCFG0 };
    link_second_rdh(&CFG);
}
