//@ attach: alice_protocol_reader/src/input_scanner.rs
//@ mod: verif_c03
// C03 / C07 / C08 / C14 / C18 — the input scanner on in-memory streams: packet sizes concrete per
// instance, all header fields and payload bytes symbolic.
#![allow(unused_imports, dead_code, clippy::all)]
use super::*;
use crate::prelude::RdhCru;
use crate::rdh::{ByteSlice, SerdeRdh, RDH, RDH_CRU};
use crate::scan_cdp::ScanCDP;
use crate::vsup::{MemReader, Msg, MsgLog, VFilter};

include!(concat!(env!("VERIF_ROOT"), "/oracle/rdh.rs"));

const N: usize = 160; // room for 2 packets of <= 80 bytes

fn hdr(d: &[u8; N], off: usize) -> [u8; 64] {
    let mut h = [0u8; 64];
    h.copy_from_slice(&d[off..off + 64]);
    h
}

/// the decoded header equals an independent little-endian decoding of the 64 bytes at `off`, and
/// re-serialises to exactly those bytes
fn header_truthful(rdh: &RdhCru, d: &[u8; N], off: usize) -> bool {
    let b = hdr(d, off);
    let s = rdh.to_byte_slice();
    let mut same = s.len() == 64;
    // 8 x u64 compares instead of a byte loop (the unwind bound is kept minimal, see DESIGN 1.6)
    let mut k = 0;
    macro_rules! cmp8 {
        ($i:expr) => {
            same &= u64::from_le_bytes([s[$i], s[$i + 1], s[$i + 2], s[$i + 3], s[$i + 4], s[$i + 5], s[$i + 6], s[$i + 7]])
                == u64::from_le_bytes([b[$i], b[$i + 1], b[$i + 2], b[$i + 3], b[$i + 4], b[$i + 5], b[$i + 6], b[$i + 7]]);
        };
    }
    cmp8!(0); cmp8!(8); cmp8!(16); cmp8!(24); cmp8!(32); cmp8!(40); cmp8!(48); cmp8!(56);
    same && rdh.version() == r_header_id(&b)
        && rdh.fee_id() == r_fee_id(&b)
        && rdh.rdh0().system_id == r_system_id(&b)
        && rdh.offset_to_next() == r_offset_next(&b)
        && rdh.payload_size() == r_memory_size(&b).wrapping_sub(64)
        && rdh.link_id() == r_link_id(&b)
        && rdh.packet_counter() == r_packet_counter(&b)
        && rdh.cru_id() == r_cru_id(&b)
        && rdh.dw() == r_dw(&b)
        && rdh.rdh1().bc() == r_bc(&b)
        && rdh.rdh1().orbit == r_orbit(&b)
        && rdh.data_format() == r_data_format(&b)
        && rdh.trigger_type() == r_trigger_type(&b)
        && rdh.pages_counter() == r_pages_counter(&b)
        && rdh.stop_bit() == r_stop_bit(&b)
        && rdh.rdh3().detector_field == r_detector_field(&b)
}

fn payload_truthful(p: &[u8], d: &[u8; N], off: usize, sz: usize) -> bool {
    if p.len() != sz - 64 {
        return false;
    }
    let mut same = true;
    macro_rules! cmpb {
        ($i:expr) => {
            if $i < sz - 64 {
                same &= p[$i] == d[off + 64 + $i];
            }
        };
    }
    cmpb!(0); cmpb!(1); cmpb!(2); cmpb!(3); cmpb!(4); cmpb!(5); cmpb!(6); cmpb!(7);
    cmpb!(8); cmpb!(9); cmpb!(10); cmpb!(11); cmpb!(12); cmpb!(13); cmpb!(14); cmpb!(15);
    same
}

/// filter kinds: 0 none, 1 link, 2 FEE id, 3 layer/stave
fn ref_match(kind: u8, val: u16, b: &[u8; 64]) -> bool {
    match kind {
        0 => true,
        1 => r_link_id(b) as u16 == (val & 0xFF),
        2 => r_fee_id(b) == val,
        _ => {
            // layer = bits 14:12, stave = bits 5:0 of the FEE id
            let m: u16 = 0b0111_0000_0011_1111;
            (r_fee_id(b) & m) == (val & m)
        }
    }
}

fn mk_filter(kind: u8, val: u16, skip: bool) -> VFilter {
    VFilter {
        skip_payload: skip,
        link: if kind == 1 { Some((val & 0xFF) as u8) } else { None },
        fee: if kind == 2 { Some(val) } else { None },
        stave: if kind == 3 { Some(val) } else { None },
    }
}

/// well-framed 2-packet stream: sizes s0, s1 concrete, everything else symbolic
fn stream2(s0: usize, s1: usize) -> [u8; N] {
    let mut d: [u8; N] = kani::any();
    d[8] = s0 as u8; d[9] = 0; d[10] = s0 as u8; d[11] = 0;
    d[s0 + 8] = s1 as u8; d[s0 + 9] = 0; d[s0 + 10] = s1 as u8; d[s0 + 11] = 0;
    d
}

fn scan2(s0: usize, s1: usize, kind: u8, skip: bool, pipe: bool) {
    let d = stream2(s0, s1);
    let val: u16 = kani::any();
    let total = s0 + s1;
    let cfg = mk_filter(kind, val, skip);
    let (tx, rx) = flume::unbounded();
    crate::vsup::reset_msgs();
    let reader = MemReader::<N> { data: d, len: total, pos: 0, pipe };
    let mut sc = InputScanner::new(&cfg, Box::new(reader), Some(tx));
    let (h0, h1) = (hdr(&d, 0), hdr(&d, s0));
    let (m0, m1) = (ref_match(kind, val, &h0), ref_match(kind, val, &h1));
    // expected visit sequence: the matching packets, in order
    let mut exp_off = [0usize; 2];
    let mut exp_sz = [0usize; 2];
    let mut n_exp = 0;
    if m0 { exp_off[n_exp] = 0; exp_sz[n_exp] = s0; n_exp += 1; }
    if m1 { exp_off[n_exp] = s0; exp_sz[n_exp] = s1; n_exp += 1; }
    let mut i = 0;
    while i < 2 {
        if i < n_exp {
            let r = sc.load_cdp::<RdhCru>();
            assert!(r.is_ok(), "a packet that matches the filter was not delivered");
            let (rdh, payload, pos) = r.unwrap();
            assert!(pos == exp_off[i] as u64, "packet delivered with a wrong byte offset");
            assert!(header_truthful(&rdh, &d, exp_off[i]), "header fields differ from the 64 bytes at the chained offset");
            if skip {
                assert!(payload.is_empty(), "payload loaded although it is to be skipped");
            } else {
                assert!(payload_truthful(&payload, &d, exp_off[i], exp_sz[i]), "payload is not the bytes following the header");
            }
            core::mem::forget(payload);
        }
        i += 1;
    }
    // nothing more: end of input
    let r = sc.load_cdp::<RdhCru>();
    assert!(r.is_err(), "a packet was delivered twice or invented");
    assert!(r.as_ref().err().unwrap().kind() == std::io::ErrorKind::UnexpectedEof, "end of input is not reported as UnexpectedEof");
    core::mem::forget(r);
    drop(sc); // flushes the statistics
    let (o, log) = crate::vsup::observe(&rx);
    assert!(o.n_err == 0 && o.n_fatal == 0, "error or fatal message on a well-framed stream");
    // C14: statistics of the scan
    assert!(log.sum(6) == 2, "RDHs seen != packets visited (skipped ones included)");
    assert!(log.sum(7) == if kind == 0 { 0 } else { n_exp as u64 }, "RDHs filtered != matching packets");
    let mut pay = 0u64;
    if m0 { pay += (s0 - 64) as u64; }
    if m1 { pay += (s1 - 64) as u64; }
    assert!(log.sum(8) == pay, "payload size statistic != sum of the delivered packets' payload sizes");
    assert!(log.nth(2, 0) == Some(r_trigger_type(&h0)) && log.count(2) == 1, "run trigger type is not the first RDH's");
    assert!(log.nth(3, 0) == Some(r_data_format(&h0) as u32) && log.count(3) == 1, "data format is not the first RDH's");
    assert!(log.nth(9, 0) == Some(r_system_id(&h0) as u32) && log.count(9) == 1, "system id is not the first RDH's");
    let l_distinct = r_link_id(&h0) != r_link_id(&h1);
    assert!(log.count(4) == 1 + l_distinct as usize && log.nth(4, 0) == Some(r_link_id(&h0) as u32), "links observed");
    if l_distinct {
        assert!(log.nth(4, 1) == Some(r_link_id(&h1) as u32));
    }
    let f_distinct = r_fee_id(&h0) != r_fee_id(&h1);
    assert!(log.count(5) == 1 + f_distinct as usize && log.nth(5, 0) == Some(r_fee_id(&h0) as u32), "FEE ids observed");
    kani::cover!(m0 && m1, "both packets delivered");
    kani::cover!(!m0 && m1, "first packet skipped by the filter, second delivered");
    kani::cover!(m0 && !m1, "second packet skipped by the filter");
    kani::cover!(!m0 && !m1, "filter value not present");
}

//@ harness: c03_scan2_nofilter_load props=C03,C07,C08,C14 tier=quick class=functional covers=1 mem=16 timeout=1500 est=200
//@ bounds: all contents of every well-framed 2-packet stream with sizes (74, 80) (payloads 10 and 16 bytes), no filter, payloads loaded, file-like reader
#[kani::proof]
#[kani::unwind(3)]
#[kani::stub(alloc::fmt::format, crate::vsup::stub_format)]
#[kani::stub(core::fmt::write, crate::vsup::stub_write)]
#[kani::stub(flume::Sender::send, crate::vsup::stub_send)]
fn c03_scan2_nofilter_load() {
    scan2(74, 80, 0, false, false);
}

//@ harness: c03_scan2_link_load props=C03,C07,C08,C14 tier=quick class=functional covers=4 mem=16 timeout=1500 est=250
//@ bounds: all contents of every well-framed 2-packet stream with sizes (74, 80), link filter with arbitrary value (present or absent), payloads loaded, file-like reader
#[kani::proof]
#[kani::unwind(3)]
#[kani::stub(alloc::fmt::format, crate::vsup::stub_format)]
#[kani::stub(core::fmt::write, crate::vsup::stub_write)]
#[kani::stub(flume::Sender::send, crate::vsup::stub_send)]
fn c03_scan2_link_load() {
    scan2(74, 80, 1, false, false);
}

//@ harness: c03_scan2_fee_skip props=C03,C07,C14 tier=quick class=functional covers=4 mem=16 timeout=1500 est=250
//@ bounds: all contents of every well-framed 2-packet stream with sizes (80, 64) (second payload empty), FEE-id filter with arbitrary value, payloads skipped by seek, file-like reader
#[kani::proof]
#[kani::unwind(3)]
#[kani::stub(alloc::fmt::format, crate::vsup::stub_format)]
#[kani::stub(core::fmt::write, crate::vsup::stub_write)]
#[kani::stub(flume::Sender::send, crate::vsup::stub_send)]
fn c03_scan2_fee_skip() {
    scan2(80, 64, 2, true, false);
}

//@ harness: c03_scan2_stave_pipe props=C03,C07,C14 tier=quick class=functional covers=4 mem=16 timeout=1500 est=250
//@ bounds: all contents of every well-framed 2-packet stream with sizes (64, 74) (first payload empty), layer/stave filter with arbitrary value, payloads skipped by read-and-discard, pipe-like reader
#[kani::proof]
#[kani::unwind(3)]
#[kani::stub(alloc::fmt::format, crate::vsup::stub_format)]
#[kani::stub(core::fmt::write, crate::vsup::stub_write)]
#[kani::stub(flume::Sender::send, crate::vsup::stub_send)]
fn c03_scan2_stave_pipe() {
    scan2(64, 74, 3, true, true);
}

//@ harness: c03_scan2_stave_load_pipe props=C03,C07,C08,C14 tier=thorough class=functional covers=4 mem=16 timeout=1500 est=250
//@ bounds: all contents of every well-framed 2-packet stream with sizes (80, 80), layer/stave filter with arbitrary value, payloads loaded, pipe-like reader
#[kani::proof]
#[kani::unwind(3)]
#[kani::stub(alloc::fmt::format, crate::vsup::stub_format)]
#[kani::stub(core::fmt::write, crate::vsup::stub_write)]
#[kani::stub(flume::Sender::send, crate::vsup::stub_send)]
fn c03_scan2_stave_load_pipe() {
    scan2(80, 80, 3, false, true);
}

//@ harness: c03_offset_range props=C03,C04 tier=quick class=functional covers=2 mem=8 timeout=600 est=40
//@ bounds: all 2^512 headers: sanity_check_offset_next accepts exactly offset_to_next in 64..=10064
#[kani::proof]
#[kani::unwind(2)]
#[kani::stub(alloc::fmt::format, crate::vsup::stub_format)]
#[kani::stub(core::fmt::write, crate::vsup::stub_write)]
#[kani::stub(flume::Sender::send, crate::vsup::stub_send)]
fn c03_offset_range() {
    let b: [u8; 64] = kani::any();
    let rdh = RdhCru::from_buf(&b).unwrap();
    let pos: u64 = kani::any();
    let r = sanity_check_offset_next(&rdh, pos, None);
    let off = r_offset_next(&b);
    assert!(r.is_ok() == (off >= 64 && off <= 10064), "accepted offset_to_next range is not 64..=10064");
    kani::cover!(r.is_ok() && off == 10064, "upper bound accepted");
    kani::cover!(r.is_err() && off == 63, "63 rejected");
    core::mem::forget(r);
}

//@ harness: c03_stave_match props=C03,C08 tier=quick class=functional covers=2 mem=6 timeout=300 est=10
//@ bounds: all pairs of 16-bit FEE ids: the layer/stave filter predicate <=> equal layer (bits 14:12) and equal stave (bits 5:0); link and FEE predicates exact
#[kani::proof]
fn c03_stave_match() {
    let b: [u8; 64] = kani::any();
    let rdh = RdhCru::from_buf(&b).unwrap();
    let v: u16 = kani::any();
    let lay = |x: u16| (x >> 12) & 7;
    let stv = |x: u16| x & 0x3F;
    let f = r_fee_id(&b);
    assert!(is_rdh_filter_target(&rdh, FilterTarget::ItsLayerStave(v)) == (lay(f) == lay(v) && stv(f) == stv(v)), "layer/stave filter predicate");
    assert!(is_rdh_filter_target(&rdh, FilterTarget::Fee(v)) == (f == v), "FEE filter predicate");
    assert!(is_rdh_filter_target(&rdh, FilterTarget::Link(v as u8)) == (r_link_id(&b) == v as u8), "link filter predicate");
    kani::cover!(lay(f) == lay(v) && stv(f) == stv(v) && f != v, "same layer/stave, different other bits");
    kani::cover!(stv(f) == stv(v) ^ 0x20, "staves differing only in bit 5");
}

//@ harness: c08_rdh_roundtrip props=C08,C03 tier=quick class=functional covers=1 mem=8 timeout=600 est=30
//@ bounds: all 2^512 headers: RdhCru::from_buf(b).to_byte_slice() == b (what the filtered writer emits for the header)
#[kani::proof]
fn c08_rdh_roundtrip() {
    let mut d: [u8; N] = kani::any();
    let rdh = RdhCru::from_buf(&d[..64]).unwrap();
    assert!(header_truthful(&rdh, &d, 0), "re-serialised header differs from the input bytes");
    kani::cover!(d[63] == 0xAB, "arbitrary reserved byte kept");
}

fn trunc1(s0: usize) {
    // one packet, then arbitrary further bytes; input ends after `cut` bytes
    let mut d: [u8; N] = kani::any();
    d[8] = s0 as u8; d[9] = 0; d[10] = s0 as u8; d[11] = 0;
    let cut: usize = kani::any();
    kani::assume(cut <= s0 + 10);
    let cfg = mk_filter(0, 0, false);
    let (tx, rx) = flume::unbounded();
    crate::vsup::reset_msgs();
    let reader = MemReader::<N> { data: d, len: cut, pos: 0, pipe: false };
    let mut sc = InputScanner::new(&cfg, Box::new(reader), Some(tx));
    let r = sc.load_cdp::<RdhCru>();
    if cut < 64 {
        // inside the RDH: nothing is delivered, end of input
        assert!(r.is_err() && r.as_ref().err().unwrap().kind() == std::io::ErrorKind::UnexpectedEof, "cut inside an RDH must end the scan with UnexpectedEof");
        core::mem::forget(r);
        let (o, _) = crate::vsup::observe(&rx);
        assert!(o.n_err == 0 && o.n_fatal == 0);
        kani::cover!(cut == 63, "cut at the last RDH byte");
        kani::cover!(cut == 0, "empty input");
    } else if cut < s0 {
        // inside the payload: the RDH is still delivered (empty payload) with exactly one [E100] error
        assert!(r.is_ok(), "RDH before the cut not delivered");
        let (rdh, payload, pos) = r.unwrap();
        assert!(pos == 0 && header_truthful(&rdh, &d, 0) && payload.is_empty());
        core::mem::forget(payload);
        let (o, _) = crate::vsup::observe(&rx);
        assert!(o.n_err == 1 && o.n_fatal == 0, "short payload must be reported exactly once");
        assert!(o.reps[0].is(b"[E100]"), "short payload must carry [E100]");
        kani::cover!(cut == s0 - 1, "cut at the last payload byte");
        kani::cover!(cut == 64, "cut right after the RDH");
    } else {
        // the whole packet precedes the cut: identical to the untruncated result
        assert!(r.is_ok(), "complete packet before the cut not delivered");
        let (rdh, payload, pos) = r.unwrap();
        assert!(pos == 0 && header_truthful(&rdh, &d, 0) && payload_truthful(&payload, &d, 0, s0), "complete packet before the cut altered");
        core::mem::forget(payload);
        let (o, _) = crate::vsup::observe(&rx);
        assert!(o.n_err == 0 && o.n_fatal == 0, "error reported for a complete packet");
        kani::cover!(cut == s0, "cut exactly at the packet boundary");
        kani::cover!(cut == s0 + 5, "cut inside the next RDH");
    }
    core::mem::forget(sc);
}

//@ harness: c18_trunc1 props=C18,C03,C04 tier=quick class=functional covers=8 mem=16 timeout=2400 est=450
//@ bounds: one 74-byte packet (arbitrary contents) followed by arbitrary bytes, input cut at EVERY byte position 0..=84: complete packet unchanged; cut in payload => RDH delivered + exactly one [E100]; cut in RDH => UnexpectedEof
#[kani::proof]
#[kani::unwind(3)]
#[kani::stub(alloc::fmt::format, crate::vsup::stub_format)]
#[kani::stub(core::fmt::write, crate::vsup::stub_write)]
#[kani::stub(flume::Sender::send, crate::vsup::stub_send)]
fn c18_trunc1() {
    trunc1(74);
}
