//@ attach: alice_protocol_reader/src/input_scanner.rs
//@ mod: verif_c03
// C03 / C07 / C08 / C14 / C18 — the input scanner on in-memory streams: packet sizes concrete per
// instance, all header fields and payload bytes symbolic.
#![allow(unused_imports, dead_code, clippy::all)]
use super::*;
use crate::prelude::RdhCru;
use crate::rdh::{ByteSlice, SerdeRdh, RDH, RDH_CRU};
use crate::scan_cdp::ScanCDP;
use crate::vsup::{MemReader, Msg, MsgLog, VFilter};

include!(concat!(env!("VERIF_ROOT"), "/oracle/rdh.rs"));

const N: usize = 160; // room for 2 packets of <= 80 bytes

fn hdr(d: &[u8; N], off: usize) -> [u8; 64] {
    let mut h = [0u8; 64];
    h.copy_from_slice(&d[off..off + 64]);
    h
}

/// the decoded header equals an independent little-endian decoding of the 64 bytes at `off`, and
/// re-serialises to exactly those bytes
fn header_truthful(rdh: &RdhCru, d: &[u8; N], off: usize) -> bool {
    let b = hdr(d, off);
    let s = rdh.to_byte_slice();
    let mut same = s.len() == 64;
    // 8 x u64 compares instead of a byte loop (the unwind bound is kept minimal, see DESIGN 1.6)
    let mut k = 0;
    macro_rules! cmp8 {
        ($i:expr) => {
            same &= u64::from_le_bytes([s[$i], s[$i + 1], s[$i + 2], s[$i + 3], s[$i + 4], s[$i + 5], s[$i + 6], s[$i + 7]])
                == u64::from_le_bytes([b[$i], b[$i + 1], b[$i + 2], b[$i + 3], b[$i + 4], b[$i + 5], b[$i + 6], b[$i + 7]]);
        };
    }
    cmp8!(0); cmp8!(8); cmp8!(16); cmp8!(24); cmp8!(32); cmp8!(40); cmp8!(48); cmp8!(56);
    same && rdh.version() == r_header_id(&b)
        && rdh.fee_id() == r_fee_id(&b)
        && rdh.rdh0().system_id == r_system_id(&b)
        && rdh.offset_to_next() == r_offset_next(&b)
        && rdh.payload_size() == r_memory_size(&b).wrapping_sub(64)
        && rdh.link_id() == r_link_id(&b)
        && rdh.packet_counter() == r_packet_counter(&b)
        && rdh.cru_id() == r_cru_id(&b)
        && rdh.dw() == r_dw(&b)
        && rdh.rdh1().bc() == r_bc(&b)
        && rdh.rdh1().orbit == r_orbit(&b)
        && rdh.data_format() == r_data_format(&b)
        && rdh.trigger_type() == r_trigger_type(&b)
        && rdh.pages_counter() == r_pages_counter(&b)
        && rdh.stop_bit() == r_stop_bit(&b)
        && rdh.rdh3().detector_field == r_detector_field(&b)
}

fn payload_truthful(p: &[u8], d: &[u8; N], off: usize, sz: usize) -> bool {
    if p.len() != sz - 64 {
        return false;
    }
    let mut same = true;
    macro_rules! cmpb {
        ($i:expr) => {
            if $i < sz - 64 {
                same &= p[$i] == d[off + 64 + $i];
            }
        };
    }
    cmpb!(0); cmpb!(1); cmpb!(2); cmpb!(3); cmpb!(4); cmpb!(5); cmpb!(6); cmpb!(7);
    cmpb!(8); cmpb!(9); cmpb!(10); cmpb!(11); cmpb!(12); cmpb!(13); cmpb!(14); cmpb!(15);
    same
}

/// filter kinds: 0 none, 1 link, 2 FEE id, 3 layer/stave
fn mk_filter(kind: u8, val: u16, skip: bool) -> VFilter {
    VFilter {
        skip_payload: skip,
        link: if kind == 1 { Some((val & 0xFF) as u8) } else { None },
        fee: if kind == 2 { Some(val) } else { None },
        stave: if kind == 3 { Some(val) } else { None },
    }
}

// The fields that decide which packets a filter selects are CONCRETE per instance, so that the
// control flow of the scan (which reads, which seeks, which error where) is concrete and only the
// data is symbolic: a symbolic io::Error value sends CBMC into io::Error's recursive drop glue and
// exhausts memory (DESIGN 1.6). The filter predicates themselves are decided for all values by
// c03_stave_match.
const LINK_A: u8 = 3;
const LINK_B: u8 = 9;
const FEE_A: u16 = 0x5021; // layer 5 stave 33
const FEE_B: u16 = 0x5001; // layer 5 stave 1 (differs from FEE_A only in stave bit 5)

/// well-framed 2-packet stream: sizes and the filter-relevant fields concrete, all else symbolic
fn stream2(s0: usize, s1: usize, first_is_a: bool, second_is_a: bool) -> [u8; N] {
    let mut d: [u8; N] = kani::any();
    d[8] = s0 as u8; d[9] = 0; d[10] = s0 as u8; d[11] = 0;
    d[s0 + 8] = s1 as u8; d[s0 + 9] = 0; d[s0 + 10] = s1 as u8; d[s0 + 11] = 0;
    let (l0, f0) = if first_is_a { (LINK_A, FEE_A) } else { (LINK_B, FEE_B) };
    let (l1, f1) = if second_is_a { (LINK_A, FEE_A) } else { (LINK_B, FEE_B) };
    d[12] = l0; d[2] = f0 as u8; d[3] = (f0 >> 8) as u8;
    d[s0 + 12] = l1; d[s0 + 2] = f1 as u8; d[s0 + 3] = (f1 >> 8) as u8;
    d
}

/// one scan of a 2-packet stream; `m0`/`m1`: does packet 0/1 carry the filter's target (A)?
fn scan2(s0: usize, s1: usize, kind: u8, skip: bool, pipe: bool, m0: bool, m1: bool, stats: bool) {
    let d = stream2(s0, s1, m0, m1);
    let val: u16 = match kind {
        1 => LINK_A as u16,
        2 => FEE_A,
        _ => FEE_A | 0x0300, // same layer/stave, different non-stave bits
    };
    let total = s0 + s1;
    let cfg = mk_filter(kind, val, skip);
    let (tx, rx) = flume::unbounded();
    crate::vsup::reset_msgs();
    let reader = MemReader::<N> { data: d, len: total, pos: 0, pipe };
    // without a statistics channel the scanner allocates far fewer heap objects; the statistics are
    // decided by the instances that pass `stats = true`
    let mut sc = InputScanner::new(&cfg, Box::new(reader), if stats { Some(tx) } else { core::mem::forget(tx); None });
    let (h0, h1) = (hdr(&d, 0), hdr(&d, s0));
    let (m0, m1) = if kind == 0 { (true, true) } else { (m0, m1) };
    let mut n_exp = 0;
    if m0 {
        let r = sc.load_cdp::<RdhCru>();
        assert!(r.is_ok(), "a packet that matches the filter was not delivered");
        let (rdh, payload, pos) = r.unwrap();
        assert!(pos == 0, "packet delivered with a wrong byte offset");
        assert!(header_truthful(&rdh, &d, 0), "header fields differ from the 64 bytes at the chained offset");
        if skip {
            assert!(payload.is_empty(), "payload loaded although it is to be skipped");
        } else {
            assert!(payload_truthful(&payload, &d, 0, s0), "payload is not the bytes following the header");
        }
        core::mem::forget(payload);
        n_exp += 1;
    }
    if m1 {
        let r = sc.load_cdp::<RdhCru>();
        assert!(r.is_ok(), "a packet that matches the filter was not delivered");
        let (rdh, payload, pos) = r.unwrap();
        assert!(pos == s0 as u64, "packet delivered with a wrong byte offset");
        assert!(header_truthful(&rdh, &d, s0), "header fields differ from the 64 bytes at the chained offset");
        if skip {
            assert!(payload.is_empty(), "payload loaded although it is to be skipped");
        } else {
            assert!(payload_truthful(&payload, &d, s0, s1), "payload is not the bytes following the header");
        }
        core::mem::forget(payload);
        n_exp += 1;
    }
    // nothing more: end of input
    let r = sc.load_cdp::<RdhCru>();
    assert!(r.is_err(), "a packet was delivered twice or invented");
    assert!(r.as_ref().err().unwrap().kind() == std::io::ErrorKind::UnexpectedEof, "end of input is not reported as UnexpectedEof");
    core::mem::forget(r);
    // what InputScanner's Drop does (flush the statistics), without running the channel's own drop
    // glue (flume's Arc<Hook<.., dyn Signal>> queues are not the subject and are expensive)
    if !stats {
        core::mem::forget(sc);
        core::mem::forget(rx);
        kani::cover!(d[70] == 0x5A && d[s0 + 70] == 0xA5, "arbitrary payload bytes");
        return;
    }
    sc.stats.take().unwrap().flush_stats();
    core::mem::forget(sc);
    let (o, log) = crate::vsup::observe(&rx);
    core::mem::forget(rx);
    assert!(o.n_err == 0 && o.n_fatal == 0, "error or fatal message on a well-framed stream");
    // C14: statistics of the scan
    assert!(log.sum(6) == 2, "RDHs seen != packets visited (skipped ones included)");
    assert!(log.sum(7) == if kind == 0 { 0 } else { n_exp as u64 }, "RDHs filtered != matching packets");
    let mut pay = 0u64;
    if m0 { pay += (s0 - 64) as u64; }
    if m1 { pay += (s1 - 64) as u64; }
    assert!(log.sum(8) == pay, "payload size statistic != sum of the delivered packets' payload sizes");
    assert!(log.nth(2, 0) == Some(r_trigger_type(&h0)) && log.count(2) == 1, "run trigger type is not the first RDH's");
    assert!(log.nth(3, 0) == Some(r_data_format(&h0) as u32) && log.count(3) == 1, "data format is not the first RDH's");
    assert!(log.nth(9, 0) == Some(r_system_id(&h0) as u32) && log.count(9) == 1, "system id is not the first RDH's");
    let l_distinct = r_link_id(&h0) != r_link_id(&h1);
    assert!(log.count(4) == 1 + l_distinct as usize && log.nth(4, 0) == Some(r_link_id(&h0) as u32), "links observed");
    let f_distinct = r_fee_id(&h0) != r_fee_id(&h1);
    assert!(log.count(5) == 1 + f_distinct as usize && log.nth(5, 0) == Some(r_fee_id(&h0) as u32), "FEE ids observed");
    kani::cover!(d[70] == 0x5A && d[s0 + 70] == 0xA5, "arbitrary payload bytes");
}

//@ harness: c14_scanner_drop_flushes props=C14 tier=thorough required=no class=functional covers=1 mem=24 timeout=900 est=200
//@ bounds: InputScanner's Drop impl sends the three counters (RDHs seen / filtered / payload size) exactly once
#[kani::proof]
#[kani::unwind(3)]
#[kani::stub(alloc::fmt::format, crate::vsup::stub_format)]
#[kani::stub(core::fmt::write, crate::vsup::stub_write)]
#[kani::stub(flume::Sender::send, crate::vsup::stub_send)]
fn c14_scanner_drop_flushes() {
    let cfg = mk_filter(0, 0, true);
    let (tx, rx) = flume::unbounded();
    crate::vsup::reset_msgs();
    let reader = MemReader::<N> { data: [0u8; N], len: 0, pos: 0, pipe: false };
    let sc = InputScanner::new(&cfg, Box::new(reader), Some(tx));
    drop(sc);
    let (_, log) = crate::vsup::observe(&rx);
    assert!(log.count(6) == 1 && log.count(7) == 1 && log.count(8) == 1 && log.n == 3, "Drop must flush RDHSeen, RDHFiltered and PayloadSize once each");
    kani::cover!(true, "reached");
    core::mem::forget(rx);
}

// The unwind bound is the recursion depth CBMC explores in io::Error's drop glue (a niche-encoded
// Result<_, io::Error> is not folded even on a concrete path), so it is kept at the minimum each
// instance needs: (packets skipped by the filter loop in one call) + 1.
macro_rules! S {
    ($name:ident, $unwind:literal, $body:expr) => {
        #[kani::proof]
        #[kani::unwind($unwind)]
        #[kani::stub(alloc::fmt::format, crate::vsup::stub_format)]
        #[kani::stub(core::fmt::write, crate::vsup::stub_write)]
        #[kani::stub(flume::Sender::send, crate::vsup::stub_send)]
        fn $name() {
            $body
        }
    };
}

// ---------------------------------------------------------------------------------------------
// Inductive step of the scan. Invariant I(sc): the tracker holds the true byte offset P of the
// reader's position, and the reader stands at the start of a packet. One call of load_cdp from
// ANY P < 2^40 must (1) deliver the first packet matching the filter with its true offset, its 64
// header bytes decoded truthfully and exactly its payload bytes, and (2) re-establish I (tracker
// and reader both at the end of the delivered packet). Chains of any length follow by induction;
// the 2-packet whole-scan instances further down are best-effort cross-checks (they exhaust 28 GB
// on this machine: three calls, ~1.2 M SSA steps, see DESIGN 1.6).
// ---------------------------------------------------------------------------------------------
fn scan_step(s0: usize, s1: usize, kind: u8, skip: bool, pipe: bool, m0: bool, m1: bool, stats: bool, p_zero: bool) {
    scan_step_d(stream2(s0, s1, m0, m1), s0, s1, kind, skip, pipe, m0, m1, stats, p_zero)
}
fn scan_step_d(d: [u8; N], s0: usize, s1: usize, kind: u8, skip: bool, pipe: bool, m0: bool, m1: bool, stats: bool, p_zero: bool) {
    let val: u16 = match kind {
        1 => LINK_A as u16,
        2 => FEE_A,
        _ => FEE_A | 0x0300,
    };
    let cfg = mk_filter(kind, val, skip);
    let (tx, rx) = flume::unbounded();
    crate::vsup::reset_msgs();
    let reader = MemReader::<N> { data: d, len: s0 + s1, pos: 0, pipe };
    let mut sc = InputScanner::new(&cfg, Box::new(reader), if stats { Some(tx) } else { core::mem::forget(tx); None });
    // arbitrary position in the input (0 = very first packet: the initial statistics are sent)
    let p: u64 = if p_zero { 0 } else { kani::any() };
    kani::assume(p < (1u64 << 40));
    if !p_zero {
        kani::assume(p > 0);
        sc.tracker.update_mem_address(p);
    }
    let (m0, m1) = if kind == 0 { (true, true) } else { (m0, m1) };
    let r = sc.load_cdp::<RdhCru>();
    if m0 || m1 {
        let (off, sz) = if m0 { (0usize, s0) } else { (s0, s1) };
        assert!(r.is_ok(), "a packet that matches the filter was not delivered");
        let (rdh, payload, pos) = r.unwrap();
        assert!(pos == p + off as u64, "packet delivered with a wrong byte offset");
        assert!(header_truthful(&rdh, &d, off), "header fields differ from the 64 bytes at the chained offset");
        if skip {
            assert!(payload.is_empty(), "payload loaded although it is to be skipped");
        } else {
            assert!(payload_truthful(&payload, &d, off, sz), "payload is not the bytes following the header");
        }
        core::mem::forget(payload);
        // the invariant again: tracker and reader at the end of the delivered packet
        assert!(sc.tracker.current_mem_address() == p + (off + sz) as u64, "position tracker does not point at the next packet");
        assert!(sc.reader.pos == off + sz, "reader is not positioned at the next packet");
    } else {
        // nothing matches: every packet is visited and skipped, then the input ends
        assert!(r.is_err() && r.as_ref().err().unwrap().kind() == std::io::ErrorKind::UnexpectedEof, "end of input is not reported as UnexpectedEof");
        core::mem::forget(r);
    }
    if stats {
        let visited: u64 = if m0 { 1 } else { 2 };
        let mut st = sc.stats.take().unwrap();
        st.flush_stats();
        core::mem::forget(st);
        let (o, log) = crate::vsup::observe(&rx);
        let (h0, h1) = (hdr(&d, 0), hdr(&d, s0));
        assert!(o.n_err == 0 && o.n_fatal == 0, "error or fatal message on a well-framed stream");
        assert!(log.sum(6) == visited, "RDHs seen != packets visited (skipped ones included)");
        assert!(log.sum(7) == if kind == 0 || !(m0 || m1) { 0 } else { 1 }, "RDHs filtered != matching packets delivered");
        let pay: u64 = if m0 { (s0 - 64) as u64 } else if m1 { (s1 - 64) as u64 } else { 0 };
        assert!(log.sum(8) == pay, "payload size statistic != payload size of the delivered packet");
        if p_zero {
            assert!(log.nth(2, 0) == Some(r_trigger_type(&h0)) && log.count(2) == 1, "run trigger type is not the first RDH's");
            assert!(log.nth(3, 0) == Some(r_data_format(&h0) as u32) && log.count(3) == 1, "data format is not the first RDH's");
            assert!(log.nth(9, 0) == Some(r_system_id(&h0) as u32) && log.count(9) == 1, "system id is not the first RDH's");
        } else {
            assert!(log.count(2) == 0 && log.count(3) == 0 && log.count(9) == 0, "initial statistics sent again in mid-stream");
        }
        assert!(log.nth(4, 0) == Some(r_link_id(&h0) as u32) && log.nth(5, 0) == Some(r_fee_id(&h0) as u32), "first link / FEE id observed");
        if !m0 {
            let l_distinct = r_link_id(&h0) != r_link_id(&h1);
            assert!(log.count(4) == 1 + l_distinct as usize, "links observed are not the distinct link ids visited");
            let f_distinct = r_fee_id(&h0) != r_fee_id(&h1);
            assert!(log.count(5) == 1 + f_distinct as usize, "FEE ids observed are not the distinct FEE ids visited");
        }
    }
    core::mem::forget(sc);
    core::mem::forget(rx);
    kani::cover!(d[70] == 0x5A && d[s0 + 70] == 0xA5, "arbitrary payload bytes");
}

//@ harness: c03_step_nofilter_load props=C03,C08 also=C07 tier=quick class=functional covers=1 mem=14 timeout=1500 est=200 args=-Z,restrict-vtable
//@ bounds: ONE load_cdp from an arbitrary input position 0 < P < 2^40: packet of 74 bytes (all header bytes but sizes/ids and all 10 payload bytes symbolic), no filter, payload loaded, file-like reader: offset = P, header/payload truthful, tracker and reader end at P+74 (inductive step => chains of any length)
S!(c03_step_nofilter_load, 2, scan_step(74, 80, 0, false, false, true, false, false, false));
//@ harness: c03_step_nofilter_skip_pipe props=C03 also=C07 tier=quick class=functional covers=1 mem=14 timeout=1500 est=200 args=-Z,restrict-vtable
//@ bounds: same, packet of 80 bytes, payload skipped by read-and-discard on a pipe-like reader
S!(c03_step_nofilter_skip_pipe, 2, scan_step(80, 64, 0, true, true, true, false, false, false));
//@ harness: c03_step_nofilter_skip_file props=C03 also=C07 tier=thorough class=functional covers=1 mem=14 timeout=1500 est=200 args=-Z,restrict-vtable
//@ bounds: same, payload skipped by a relative seek on a file-like reader
S!(c03_step_nofilter_skip_file, 2, scan_step(80, 64, 0, true, false, true, false, false, false));
//@ harness: c03_step_link_second props=C03 also=C07,C08 tier=quick class=functional covers=1 mem=14 timeout=1800 est=300 args=-Z,restrict-vtable
//@ bounds: ONE load_cdp from arbitrary P with a link filter: first packet (74 bytes) does not match and is skipped, the second (80 bytes) matches: delivered offset = P+74, its header/payload truthful, tracker/reader at P+154
S!(c03_step_link_second, 2, scan_step(74, 80, 1, false, false, false, true, false, false));
//@ harness: c03_step_fee_first_skip props=C03 also=C07 tier=thorough class=functional covers=1 mem=14 timeout=1800 est=300 args=-Z,restrict-vtable
//@ bounds: FEE-id filter, first packet matches, payloads skipped by seek: offset = P, tracker/reader at P+80
S!(c03_step_fee_first_skip, 2, scan_step(80, 64, 2, true, false, true, false, false, false));
//@ harness: c03_step_stave_second_pipe props=C03 also=C07,C08 tier=quick class=functional covers=1 mem=14 timeout=1800 est=300 args=-Z,restrict-vtable
//@ bounds: layer/stave filter on a pipe-like reader: first packet has the same layer but stave+32 (skipped by read-and-discard, empty payload), second matches and is loaded
S!(c03_step_stave_second_pipe, 2, scan_step(64, 74, 3, false, true, false, true, false, false));
//@ harness: c03_step_stave_second_skip props=C03,C07 tier=quick class=functional covers=1 mem=14 timeout=1800 est=100 args=-Z,restrict-vtable
//@ bounds: layer/stave filter, payloads skipped by seek (file-like): the first packet is header-only (offset_to_next = 64), has the same layer but stave+32 and is skipped by the filter loop; the second matches: delivered offset = P+64, tracker/reader at P+138
S!(c03_step_stave_second_skip, 2, scan_step(64, 74, 3, true, false, false, true, false, false));
//@ harness: c03_step_stave_none props=C03 also=C14 tier=quick class=functional covers=1 mem=14 timeout=1800 est=300 args=-Z,restrict-vtable
//@ bounds: layer/stave filter value not present: both packets visited and skipped, then UnexpectedEof
S!(c03_step_stave_none, 3, scan_step(64, 74, 3, true, false, false, false, false, false));
//@ harness: c14_step_stats_first props=C14 also=C03 tier=quick class=functional covers=1 mem=24 timeout=1800 est=300 args=-Z,restrict-vtable
//@ bounds: first call (P = 0) with the statistics channel, no filter, payload skipped: run trigger type / data format / system id of the first RDH sent once; RDHSeen/PayloadSize/link/FEE id equal the ground truth
S!(c14_step_stats_first, 2, scan_step(74, 80, 0, true, false, true, false, true, true));
//@ harness: c14_step_stats_same_fee props=C14 tier=quick class=functional covers=1 mem=24 timeout=2400 est=400 args=-Z,restrict-vtable
//@ bounds: mid-stream call with a link filter, payloads skipped; the filter-skipped first packet and the delivered second packet carry the SAME FEE id on DIFFERENT links: both links are observed, the FEE id once
S!(c14_step_stats_same_fee, 2, {
    let mut d = stream2(74, 80, false, true);
    d[2] = FEE_A as u8;
    d[3] = (FEE_A >> 8) as u8; // first packet: link B, FEE A
    scan_step_d(d, 74, 80, 1, true, false, false, true, true, false)
});
//@ harness: c14_step_stats_filter props=C14 also=C03 tier=quick class=functional covers=1 mem=14 timeout=1500 est=100 args=-Z,restrict-vtable
//@ bounds: mid-stream call with a link filter, payloads skipped, first packet skipped by the filter: RDHSeen counts both visited packets, RDHFiltered the delivered one, both links and FEE ids observed
S!(c14_step_stats_filter, 2, scan_step(74, 80, 1, true, false, false, true, true, false));
//@ harness: c14_step_stats_mid props=C14 also=C03 tier=quick class=functional covers=1 mem=20 timeout=1800 est=300 args=-Z,restrict-vtable
//@ bounds: mid-stream call (P > 0), no filter: no initial statistics again; counters equal ground truth
S!(c14_step_stats_mid, 2, scan_step(74, 80, 0, false, false, true, false, true, false));

//@ harness: c03_scan2_nofilter_load props=C03 also=C07,C08,C14 tier=thorough required=no class=functional covers=1 mem=28 timeout=900 est=120 args=-Z,restrict-vtable
//@ bounds: all contents of the well-framed 2-packet stream with sizes (74, 80) (payloads 10 and 16 bytes; link/FEE ids of the two packets fixed, all other 122 header bytes and all payload bytes symbolic), no filter, payloads loaded, file-like reader
S!(c03_scan2_nofilter_load, 2, scan2(74, 80, 0, false, false, true, false, false));
//@ harness: c03_scan2_link_second props=C03 also=C07,C08,C14 tier=thorough required=no class=functional covers=1 mem=28 timeout=900 est=150 args=-Z,restrict-vtable
//@ bounds: sizes (74, 80), link filter selecting only the SECOND packet (first skipped by the filter loop), payloads loaded, file-like reader: delivered offset must be the second packet's
S!(c03_scan2_link_second, 2, scan2(74, 80, 1, false, false, false, true, false));

/// a packet the filter does NOT select carries an offset_to_next outside 64..=10064: the scan must end with the
/// documented fatal error (InvalidData) instead of following the offset (seek backwards / endless loop / panic)
fn skipped_bad_offset(bad: u16, skip: bool, pipe: bool) {
    let mut d = stream2(74, 80, false, true);
    d[8] = bad as u8;
    d[9] = (bad >> 8) as u8;
    let cfg = mk_filter(1, LINK_A as u16, skip);
    let reader = MemReader::<N> { data: d, len: 154, pos: 0, pipe };
    let mut sc = InputScanner::new(&cfg, Box::new(reader), None);
    let p: u64 = kani::any();
    kani::assume(p > 0 && p < (1u64 << 40));
    sc.tracker.update_mem_address(p);
    let r = sc.load_cdp::<RdhCru>();
    assert!(r.is_err(), "a packet was delivered although the chain is broken by an invalid offset_to_next in a skipped packet");
    assert!(r.as_ref().err().unwrap().kind() == std::io::ErrorKind::InvalidData, "invalid offset_to_next in a skipped packet is not the documented fatal InvalidData error");
    core::mem::forget(r);
    core::mem::forget(sc);
    kani::cover!(d[70] == 0x5A, "arbitrary payload bytes");
}

//@ harness: c04_step_skipped_bad_offset_0 props=C04,C03 tier=quick class=functional covers=1 mem=20 timeout=1800 est=200 args=-Z,restrict-vtable
//@ bounds: ONE load_cdp from arbitrary P with a link filter; the first packet is NOT selected and its offset_to_next is 0 (contents otherwise symbolic), file-like reader, payloads loaded: Err(InvalidData), no panic, no seek backwards
S!(c04_step_skipped_bad_offset_0, 2, skipped_bad_offset(0, false, false));
//@ harness: c04_step_skipped_bad_offset_63 props=C04,C03 tier=quick class=functional covers=1 mem=20 timeout=1800 est=200 args=-Z,restrict-vtable
//@ bounds: same with offset_to_next = 63 (just below the accepted range)
S!(c04_step_skipped_bad_offset_63, 2, skipped_bad_offset(63, false, false));
//@ harness: c04_step_skipped_bad_offset_hi props=C04,C03 tier=thorough class=functional covers=1 mem=20 timeout=1800 est=200 args=-Z,restrict-vtable
//@ bounds: same with offset_to_next = 10065 (just above the accepted range)
S!(c04_step_skipped_bad_offset_hi, 2, skipped_bad_offset(10065, false, false));
//@ harness: c04_step_skipped_bad_offset_pipe props=C04,C03 tier=thorough class=functional covers=1 mem=20 timeout=1800 est=200 args=-Z,restrict-vtable
//@ bounds: same on a pipe-like reader with payloads skipped (offset 0)
S!(c04_step_skipped_bad_offset_pipe, 2, skipped_bad_offset(0, true, true));

//@ harness: c03_offset_range props=C03,C04 tier=quick class=functional covers=2 mem=8 timeout=600 est=40
//@ bounds: all 2^512 headers: sanity_check_offset_next accepts exactly offset_to_next in 64..=10064
#[kani::proof]
#[kani::unwind(2)]
#[kani::stub(alloc::fmt::format, crate::vsup::stub_format)]
#[kani::stub(core::fmt::write, crate::vsup::stub_write)]
#[kani::stub(flume::Sender::send, crate::vsup::stub_send)]
fn c03_offset_range() {
    let b: [u8; 64] = kani::any();
    let rdh = RdhCru::from_buf(&b).unwrap();
    let pos: u64 = kani::any();
    let r = sanity_check_offset_next(&rdh, pos, None);
    let off = r_offset_next(&b);
    assert!(r.is_ok() == (off >= 64 && off <= 10064), "accepted offset_to_next range is not 64..=10064");
    kani::cover!(r.is_ok() && off == 10064, "upper bound accepted");
    kani::cover!(r.is_err() && off == 63, "63 rejected");
    core::mem::forget(r);
}

//@ harness: c03_stave_match props=C03,C08 tier=quick class=functional covers=2 mem=6 timeout=300 est=10
//@ bounds: all pairs of 16-bit FEE ids: the layer/stave filter predicate <=> equal layer (bits 14:12) and equal stave (bits 5:0); link and FEE predicates exact
#[kani::proof]
fn c03_stave_match() {
    let b: [u8; 64] = kani::any();
    let rdh = RdhCru::from_buf(&b).unwrap();
    let v: u16 = kani::any();
    let lay = |x: u16| (x >> 12) & 7;
    let stv = |x: u16| x & 0x3F;
    let f = r_fee_id(&b);
    assert!(is_rdh_filter_target(&rdh, FilterTarget::ItsLayerStave(v)) == (lay(f) == lay(v) && stv(f) == stv(v)), "layer/stave filter predicate");
    assert!(is_rdh_filter_target(&rdh, FilterTarget::Fee(v)) == (f == v), "FEE filter predicate");
    assert!(is_rdh_filter_target(&rdh, FilterTarget::Link(v as u8)) == (r_link_id(&b) == v as u8), "link filter predicate");
    kani::cover!(lay(f) == lay(v) && stv(f) == stv(v) && f != v, "same layer/stave, different other bits");
    kani::cover!(stv(f) == stv(v) ^ 0x20, "staves differing only in bit 5");
}

//@ harness: c08_rdh_roundtrip props=C08,C03 tier=quick class=functional covers=1 mem=8 timeout=600 est=30
//@ bounds: all 2^512 headers: RdhCru::from_buf(b).to_byte_slice() == b (what the filtered writer emits for the header)
#[kani::proof]
fn c08_rdh_roundtrip() {
    let d: [u8; N] = kani::any();
    // memory_size < 64 makes payload_size() underflow in the dev profile (C04 note); the accessor is
    // compared only where it is defined
    kani::assume(r_memory_size(&hdr(&d, 0)) >= 64);
    let rdh = RdhCru::from_buf(&d[..64]).unwrap();
    assert!(header_truthful(&rdh, &d, 0), "re-serialised header differs from the input bytes");
    kani::cover!(d[63] == 0xAB, "arbitrary reserved byte kept");
}

/// one 74-byte packet (arbitrary contents) followed by arbitrary bytes; input ends after `cut` bytes.
/// `cut` is CONCRETE (enumerated by the caller's loop): the control flow of the scan is concrete.
fn trunc_at(d: &[u8; N], s0: usize, cut: usize) {
    let cfg = mk_filter(0, 0, false);
    let (tx, rx) = flume::unbounded();
    crate::vsup::reset_msgs();
    let reader = MemReader::<N> { data: *d, len: cut, pos: 0, pipe: false };
    let mut sc = InputScanner::new(&cfg, Box::new(reader), Some(tx));
    let r = sc.load_cdp::<RdhCru>();
    if cut < 64 {
        assert!(r.is_err() && r.as_ref().err().unwrap().kind() == std::io::ErrorKind::UnexpectedEof, "cut inside an RDH must end the scan with UnexpectedEof");
        core::mem::forget(r);
        let (o, _) = crate::vsup::observe(&rx);
        assert!(o.n_err == 0 && o.n_fatal == 0, "error reported although no complete RDH precedes the cut");
    } else if cut < s0 {
        assert!(r.is_ok(), "RDH before the cut not delivered");
        let (rdh, payload, pos) = r.unwrap();
        assert!(pos == 0 && header_truthful(&rdh, d, 0) && payload.is_empty(), "RDH before a cut payload altered");
        core::mem::forget(payload);
        let (o, _) = crate::vsup::observe(&rx);
        assert!(o.n_err == 1 && o.n_fatal == 0, "short payload must be reported exactly once");
        assert!(o.reps[0].is(b"[E100]"), "short payload must carry [E100]");
    } else {
        assert!(r.is_ok(), "complete packet before the cut not delivered");
        let (rdh, payload, pos) = r.unwrap();
        assert!(pos == 0 && header_truthful(&rdh, d, 0) && payload_truthful(&payload, d, 0, s0), "complete packet before the cut altered");
        core::mem::forget(payload);
        let (o, _) = crate::vsup::observe(&rx);
        assert!(o.n_err == 0 && o.n_fatal == 0, "error reported for a complete packet");
        // (the next call, on an incomplete or missing RDH in mid-stream, is the situation decided by
        // c03_step_stave_none / c18_trunc_rdh: UnexpectedEof; a second call in this query exhausts 30 GB)
        assert!(sc.tracker.current_mem_address() == s0 as u64 && sc.reader.pos == s0, "scanner not positioned at the end of the complete packet");
    }
    core::mem::forget(sc);
    core::mem::forget(rx);
}

fn trunc_stream() -> [u8; N] {
    let s0 = 74;
    let mut d: [u8; N] = kani::any();
    d[8] = s0 as u8; d[9] = 0; d[10] = s0 as u8; d[11] = 0;
    d
}

// The scanner observes the end of input only through read_exact's result. MemReader (like any
// reader) gives the same result for every cut inside one of the regions
//   [0,64) RDH incomplete | [64,74) payload incomplete | 74 packet complete, nothing follows |
//   (74,138) next RDH incomplete
// so the regions are enumerated at both of their ends; contents are symbolic in every instance.

//@ harness: c18_trunc_rdh props=C18 also=C03,C04 tier=quick class=functional covers=1 mem=20 timeout=1500 est=150 args=-Z,restrict-vtable
//@ bounds: one 74-byte packet (arbitrary contents) followed by arbitrary bytes, input cut inside the RDH (cuts 0 and 63 = both ends of the region in which read_exact(64) fails): UnexpectedEof, nothing delivered, no error
S!(c18_trunc_rdh, 2, {
    let d = trunc_stream();
    trunc_at(&d, 74, 0);
    trunc_at(&d, 74, 63);
    kani::cover!(d[70] == 0x77, "arbitrary payload byte");
});
//@ harness: c18_trunc_payload_first props=C18,C16 also=C03,C04 tier=quick class=functional covers=1 mem=24 timeout=1500 est=200 args=-Z,restrict-vtable
//@ bounds: same stream cut right after the RDH (64): RDH delivered with empty payload + exactly one [E100]
S!(c18_trunc_payload_first, 2, {
    let d = trunc_stream();
    trunc_at(&d, 74, 64);
    kani::cover!(d[70] == 0x77, "arbitrary payload byte");
});
//@ harness: c18_trunc_payload_last props=C18 also=C03,C04 tier=quick class=functional covers=1 mem=24 timeout=1500 est=200 args=-Z,restrict-vtable
//@ bounds: same stream cut at the last payload byte (73): RDH delivered with empty payload + exactly one [E100]
S!(c18_trunc_payload_last, 2, {
    let d = trunc_stream();
    trunc_at(&d, 74, 73);
    kani::cover!(d[70] == 0x77, "arbitrary payload byte");
});
//@ harness: c18_trunc_boundary props=C18 also=C03,C04 tier=quick class=functional covers=1 mem=20 timeout=1800 est=300 args=-Z,restrict-vtable
//@ bounds: same stream cut exactly at the packet boundary (74): the complete packet is delivered unchanged with no error and the scanner stands at its end
S!(c18_trunc_boundary, 2, {
    let d = trunc_stream();
    trunc_at(&d, 74, 74);
    kani::cover!(d[70] == 0x77, "arbitrary payload byte");
});
//@ harness: c18_trunc_next_rdh props=C18 also=C03,C04 tier=quick class=functional covers=1 mem=20 timeout=1800 est=300 args=-Z,restrict-vtable
//@ bounds: same stream cut inside the following RDH (84): the complete packet is delivered unchanged with no error and the scanner stands at its end (the partial next RDH then ends the scan: c03_step_stave_none)
S!(c18_trunc_next_rdh, 2, {
    let d = trunc_stream();
    trunc_at(&d, 74, 84);
    kani::cover!(d[70] == 0x77, "arbitrary payload byte");
});
