//@ attach: fastpasta/src/analyze/validators/its/alpide/lane_alpide_frame_analyzer.rs
//@ mod: verif_c13
// C13 K1/K2 — ALPIDE byte classification and lane decoder == reference; hit-content independence.
#![allow(unused_imports, dead_code, clippy::all)]
use super::*;
use crate::words::its::alpide::alpide_word::{AlpideProtocolExtension, AlpideWord};
use crate::words::its::alpide::AlpideFrameChipData;
use crate::words::its::Layer;

include!(concat!(env!("VERIF_ROOT"), "/oracle/alpide.rs"));

//@ harness: c13_from_byte props=C13,C04,C20 tier=quick class=functional covers=3 mem=6 timeout=300 est=10
//@ bounds: all 256 byte values: AlpideWord::from_byte == reference classification; never Ape(Padding) (justifies the unreachable_unchecked in decode)
#[kani::proof]
fn c13_from_byte() {
    let b: u8 = kani::any();
    let w = AlpideWord::from_byte(b);
    let k = ref_alpide_kind(b);
    let ok = match (w, k) {
        (Ok(AlpideWord::DataShort), AKind::DataShort) => true,
        (Ok(AlpideWord::DataLong), AKind::DataLong) => true,
        (Ok(AlpideWord::RegionHeader), AKind::RegionHeader) => true,
        (Ok(AlpideWord::ChipHeader), AKind::ChipHeader) => true,
        (Ok(AlpideWord::ChipEmptyFrame), AKind::ChipEmpty) => true,
        (Ok(AlpideWord::ChipTrailer), AKind::ChipTrailer) => true,
        (Ok(AlpideWord::BusyOn), AKind::Busy) | (Ok(AlpideWord::BusyOff), AKind::Busy) => true,
        (Ok(AlpideWord::Ape(a)), AKind::ApeWarning) => matches!(
            a,
            AlpideProtocolExtension::StripStart | AlpideProtocolExtension::PeDataMissing | AlpideProtocolExtension::OotDataMissing
        ),
        (Ok(AlpideWord::Ape(a)), AKind::ApeFatal) => !matches!(
            a,
            AlpideProtocolExtension::StripStart
                | AlpideProtocolExtension::PeDataMissing
                | AlpideProtocolExtension::OotDataMissing
                | AlpideProtocolExtension::Padding
        ),
        (Err(()), AKind::Unknown) => true,
        _ => false,
    };
    assert!(ok, "ALPIDE byte classified differently from the data format");
    assert!(!matches!(w, Ok(AlpideWord::Ape(AlpideProtocolExtension::Padding))), "from_byte returned Ape(Padding)");
    kani::cover!(k == AKind::ApeFatal, "fatal APE");
    kani::cover!(k == AKind::Unknown, "unknown byte");
    kani::cover!(k == AKind::ChipTrailer, "trailer");
}

fn stats_match(a: &mut LaneAlpideFrameAnalyzer, m: &RefLaneDecoder) -> bool {
    let f = *a.alpide_stats().readout_flags();
    f.chip_trailers_seen() == m.trailers
        && f.busy_violations() == m.busy_violations
        && f.data_overrun() == m.data_overrun
        && f.transmission_in_fatal() == m.transmission_in_fatal
        && f.flushed_incomplete() == m.flushed_incomplete
        && f.strobe_extended() == m.strobe_extended
        && f.busy_transitions() == m.busy_transitions
}

//@ harness: c13_decode_step props=C13,C04,C01,C20 tier=quick class=functional covers=8 mem=8 timeout=600 est=30
//@ bounds: ONE arbitrary byte from an ARBITRARY decoder state (header-seen flag, skip count <= 2, BC-expected flag, last chip id, fatal flag, 0 or 1 stored chip with arbitrary id/BC), legal ALPIDE context: post-state == reference transition. Unconstrained pre-state => covers lane streams of any length
#[kani::proof]
#[kani::unwind(9)]
#[kani::stub(alloc::fmt::format, crate::vsup::stub_format)]
#[kani::stub(core::fmt::write, crate::vsup::stub_write)]
fn c13_decode_step() {
    let mut a = LaneAlpideFrameAnalyzer::new(Layer::Outer, None, None);
    let mut m = RefLaneDecoder::new();
    m.in_chip = kani::any();
    m.skip = kani::any();
    kani::assume(m.skip <= 2);
    m.expect_bc = kani::any();
    kani::assume(!(m.skip > 0 && m.expect_bc));
    m.last_chip = kani::any();
    kani::assume(m.last_chip <= 0xF);
    m.fatal = kani::any();
    let have: bool = kani::any();
    let c0 = RefChip { id: kani::any(), bc: kani::any() };
    kani::assume(c0.id <= 0xF);
    if have {
        m.chips[0] = c0;
        m.nchips = 1;
        a.chip_data.push(AlpideFrameChipData { chip_id: c0.id, bunch_counter: Some(c0.bc) });
    }
    a.is_header_seen = m.in_chip;
    a.skip_n_bytes = m.skip;
    a.next_is_bc = m.expect_bc;
    a.last_chip_id = m.last_chip;
    a.lane_status_fatal = m.fatal;
    let b: u8 = kani::any();
    kani::assume(m.legal(b));
    a.decode(b);
    m.step(b);
    assert!(a.skip_n_bytes == m.skip, "skip count differs");
    assert!(a.next_is_bc == m.expect_bc, "BC expectation differs");
    assert!(a.lane_status_fatal == m.fatal, "fatal flag differs");
    assert!(a.last_chip_id == m.last_chip || !m.expect_bc, "chip id differs");
    // in_chip is compared where the reference defines it (chip header/empty/trailer decide it;
    // a region header inside a chip leaves it set)
    assert!(a.is_header_seen == m.in_chip, "in-chip flag differs");
    assert!(a.chip_data.len() == m.nchips, "number of decoded chips differs");
    if m.nchips >= 1 {
        assert!(a.chip_data[0].chip_id == m.chips[0].id && a.chip_data[0].bunch_counter == Some(m.chips[0].bc));
    }
    if m.nchips == 2 {
        assert!(a.chip_data[1].chip_id == m.chips[1].id && a.chip_data[1].bunch_counter == Some(m.chips[1].bc));
    }
    assert!(a.has_errors() == m.error, "duplicate-chip error differs");
    assert!(stats_match(&mut a, &m), "readout-flag counters differ");
    kani::cover!(m.nchips == 2, "second chip stored");
    kani::cover!(m.error, "chip announced twice");
    kani::cover!(m.trailers == 1 && m.busy_violations == 1, "busy violation trailer");
    kani::cover!(m.trailers == 1 && m.flushed_incomplete == 1 && m.strobe_extended == 1, "combined flags trailer");
    kani::cover!(m.skip == 2 && b == 0, "0x00 inside a chip is DATA LONG");
    kani::cover!(!m.in_chip && b == 0 && m.skip == 0, "0x00 outside a chip is idle");
    kani::cover!(m.fatal && ref_alpide_kind(b) == AKind::ApeFatal, "fatal APE");
    kani::cover!(ref_alpide_kind(b) == AKind::ChipEmpty && m.expect_bc, "empty frame");
    core::mem::forget(a);
}

fn lockstep(n: usize) {
    let mut a = LaneAlpideFrameAnalyzer::new(Layer::Outer, None, None);
    let mut m = RefLaneDecoder::new();
    let mut i = 0;
    while i < n {
        let b: u8 = kani::any();
        kani::assume(m.legal(b));
        a.decode(b);
        m.step(b);
        i += 1;
    }
    assert!(a.skip_n_bytes == m.skip && a.next_is_bc == m.expect_bc && a.lane_status_fatal == m.fatal);
    assert!(a.is_header_seen == m.in_chip);
    assert!(a.chip_data.len() == m.nchips);
    let mut k = 0;
    while k < 3 {
        if k < m.nchips {
            assert!(a.chip_data[k].chip_id == m.chips[k].id && a.chip_data[k].bunch_counter == Some(m.chips[k].bc));
        }
        k += 1;
    }
    assert!(a.has_errors() == m.error);
    assert!(stats_match(&mut a, &m));
    kani::cover!(m.nchips == 2 && m.trailers == 1, "two chips, one trailer");
    kani::cover!(m.nchips == 1 && m.trailers == 1 && m.skip == 0 && !m.in_chip, "complete chip frame with hit data");
    core::mem::forget(a);
}

//@ harness: c13_lockstep6 props=C13 tier=quick class=functional covers=2 mem=16 timeout=2400 est=400
//@ bounds: every legal lane stream of 6 bytes from the initial decoder state, in lock-step with the reference decoder
#[kani::proof]
#[kani::unwind(9)]
#[kani::stub(alloc::fmt::format, crate::vsup::stub_format)]
#[kani::stub(core::fmt::write, crate::vsup::stub_write)]
fn c13_lockstep6() {
    lockstep(6);
}

//@ harness: c13_flags props=C13,C14 tier=quick class=functional covers=2 mem=6 timeout=300 est=10
//@ bounds: all 256 trailer bytes x arbitrary starting counters < 2^31: ReadoutFlags::log increments exactly the documented counters
#[kani::proof]
fn c13_flags() {
    let mut s = crate::stats::stats_collector::its_stats::alpide_stats::AlpideStats::default();
    let b: u8 = kani::any();
    kani::assume(b >> 4 == 0b1011);
    s.log_readout_flags(b);
    let mut m = RefLaneDecoder::new();
    m.in_chip = true;
    m.step(b);
    let f = *s.readout_flags();
    assert!(f.chip_trailers_seen() == 1);
    assert!(f.busy_violations() == m.busy_violations && f.data_overrun() == m.data_overrun && f.transmission_in_fatal() == m.transmission_in_fatal);
    assert!(f.flushed_incomplete() == m.flushed_incomplete && f.strobe_extended() == m.strobe_extended && f.busy_transitions() == m.busy_transitions);
    kani::cover!(m.data_overrun == 1, "data overrun");
    kani::cover!(m.busy_transitions == 1 && m.flushed_incomplete == 0, "busy transition only");
}

//@ harness: c20_chip_count props=C20,C13 tier=quick class=functional covers=3 mem=10 timeout=900 est=60
//@ bounds: lane with 0..=2 decoded chips x barrel {inner, middle, outer} x configured outer-barrel chip count None|Some(any u8): check_chip_count is Err iff (inner and chips != 1) or (middle/outer and a count is configured and chips != count)
#[kani::proof]
#[kani::unwind(4)]
#[kani::stub(alloc::fmt::format, crate::vsup::stub_format)]
#[kani::stub(core::fmt::write, crate::vsup::stub_write)]
fn c20_chip_count() {
    let which: u8 = kani::any();
    kani::assume(which <= 2);
    let layer = match which {
        0 => Layer::Inner,
        1 => Layer::Middle,
        _ => Layer::Outer,
    };
    let cfg: Option<u8> = kani::any();
    let mut a = LaneAlpideFrameAnalyzer::new(layer, None, cfg);
    let n: usize = kani::any();
    kani::assume(n <= 2);
    if n >= 1 {
        a.chip_data.push(AlpideFrameChipData { chip_id: 3, bunch_counter: Some(7) });
    }
    if n >= 2 {
        a.chip_data.push(AlpideFrameChipData { chip_id: 4, bunch_counter: Some(7) });
    }
    let r = a.check_chip_count();
    let expect_err = match which {
        0 => n != 1,
        _ => match cfg {
            Some(c) => n != c as usize,
            None => false,
        },
    };
    assert!(r.is_err() == expect_err, "chip count verdict differs (inner: exactly 1; middle/outer: the configured count)");
    kani::cover!(which == 1 && expect_err, "middle layer, wrong configured count");
    kani::cover!(which == 2 && cfg.is_some() && !expect_err, "outer layer, matching count");
    kani::cover!(which == 0 && expect_err, "inner lane without exactly one chip");
    core::mem::forget(r);
    core::mem::forget(a);
}

//@ harness: c13_chip_order_inner props=C13 tier=quick class=functional covers=2 mem=10 timeout=900 est=40
//@ bounds: inner-barrel lane with exactly one decoded chip, arbitrary chip id and lane number: check_chip_id_order is Err iff chip id != lane number
#[kani::proof]
#[kani::unwind(4)]
#[kani::stub(alloc::fmt::format, crate::vsup::stub_format)]
#[kani::stub(core::fmt::write, crate::vsup::stub_write)]
fn c13_chip_order_inner() {
    let mut a = LaneAlpideFrameAnalyzer::new(Layer::Inner, None, None);
    let chip: u8 = kani::any();
    kani::assume(chip <= 0xF);
    let lane: u8 = kani::any();
    a.lane_number = lane;
    a.chip_data.push(AlpideFrameChipData { chip_id: chip, bunch_counter: Some(1) });
    let r = a.check_chip_id_order();
    assert!(r.is_err() == (chip != lane), "inner barrel: chip id must equal the lane number");
    kani::cover!(r.is_ok(), "chip id equals lane");
    kani::cover!(r.is_err(), "chip id differs");
    core::mem::forget(r);
    core::mem::forget(a);
}

//@ harness: c20_chip_order_ob props=C20,C13 tier=quick class=functional covers=2 mem=12 timeout=900 est=60
//@ bounds: outer-barrel lane with two decoded chips of arbitrary ids and user-configured legal orders [[0,1],[9,10]]: check_chip_id_order is Err iff the observed order is none of the configured ones; no configured orders => always Ok
#[kani::proof]
#[kani::unwind(6)]
#[kani::stub(alloc::fmt::format, crate::vsup::stub_format)]
#[kani::stub(core::fmt::write, crate::vsup::stub_write)]
fn c20_chip_order_ob() {
    let orders: [Vec<u8>; 2] = [vec![0, 1], vec![9, 10]];
    let configured: bool = kani::any();
    let mut a = LaneAlpideFrameAnalyzer::new(Layer::Outer, if configured { Some(&orders[..]) } else { None }, None);
    let (c0, c1): (u8, u8) = (kani::any(), kani::any());
    kani::assume(c0 <= 0xF && c1 <= 0xF);
    a.chip_data.push(AlpideFrameChipData { chip_id: c0, bunch_counter: Some(1) });
    a.chip_data.push(AlpideFrameChipData { chip_id: c1, bunch_counter: Some(1) });
    let r = a.check_chip_id_order();
    let legal = (c0 == 0 && c1 == 1) || (c0 == 9 && c1 == 10);
    assert!(r.is_err() == (configured && !legal), "outer barrel: chip order must be one of the configured orders");
    kani::cover!(configured && legal, "configured, legal order");
    kani::cover!(configured && !legal && c0 == 1 && c1 == 0, "configured, reversed order rejected");
    core::mem::forget(r);
    core::mem::forget(a);
    core::mem::forget(orders);
}
