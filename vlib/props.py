"""Per-property text that goes into the evidence files: what is decided, what is outside."""

EXPLANATION = (
    "Bounded symbolic execution of the real code: Kani 0.68 translates the current /repo sources "
    "(rustc MIR) to a CBMC goto-program; harness inputs are kani::any() bit-vectors; CBMC 6.11 + CaDiCaL "
    "decide every assertion for ALL values inside the stated bounds (unwinding assertions on) or return a "
    "concrete assignment, which is replayed natively (cargo kani playback = cargo test of the real crate, no stubs) "
    "before a VIOLATION is printed. The verdict says nothing outside the bounds listed per harness. "
    "evaluations = solver (decision-procedure) calls; distinct_nontrivial = satisfied kani::cover! witnesses "
    "(reachability of the cases each harness is about); obligations/discharged = CBMC checks decided/SUCCESS."
)

COMMON_ASSUMPTIONS = [
    "Kani/CBMC/CaDiCaL and rustc's MIR are trusted; dev profile (debug assertions on unless the harness class is crash/functional_rel), overflow checks on; failed rustc overflow checks are reported as dev-profile-only notes (release wraps)",
    "stub alloc::fmt::format -> first literal piece of the template (<= 8 bytes) or '#': the text of messages is lost, emptiness and the leading '[Exxx]' literal are kept; the leading '{pos:#X}: ' argument is read back from the fmt::Arguments; arguments are still evaluated by the real code",
    "stub core::fmt::write -> writes '#': callers decide Ok/Err by err_str.is_empty(); assumes every such format string renders >= 1 byte (all contain literal text)",
    "stub flume::Sender::send -> never blocks/fails, counts messages by variant, forgets the message (anything that statically reaches std::thread::current() crashes kani-compiler)",
    "stub its::util::report_error -> records (mem_pos, first 6 bytes of the message, the 10 quoted word bytes)",
    "format-template reader (vsup::peek) depends on core::fmt::Arguments' layout of the pinned toolchain; validated on every run by the vsup_selftest_* harnesses",
    "Kani 0.68 may materialise a struct-typed constant as a read from any allocation with the same bytes, including a mutable static of the harness code; all such statics have unique initial bytes, and for every goto binary the alias guard (vlib/run.py) checks that no function outside the harness/support modules and stub bodies takes their address (a hit turns the verdict into INCONCLUSIVE)",
    "reference predicates in /verif/oracle are hand-written from doc/checks_list.md, doc/ITS_payload_fsm_continuous_mode.puml, README.md, CHANGELOG (v1.21.0 detector field) and the ITS/ALPIDE word layouts",
]

STEP = ("one inductive step of the composed ITS payload validator per FSM state and word class: the state is reached by a concrete conforming "
        "word prefix; the word under test has the fields its rules read symbolic and the other rules' inputs concrete and conforming ('one rule at a time'); "
        "packet offset < 2^40 and data format in {0,2} symbolic")

PROPS = {
    "C01": dict(decided="conforming input => silence: <= halves of C10 (all sane headers / HBF-start histories accepted) and C11 (all sane words accepted); FSM never reports an allowed sequence (C09 bisimulation); " + STEP + ": a conforming word yields zero reports; well-formed payloads are chunked without a debug assertion firing; exit status 0 when nothing was reported (exit table)",
                outside=["stave mode beyond the ALPIDE decoder step (bunch-counter comparisons use HashMap)", "several links, batches of 100, -E/mute plumbing, clap", "multi-word symbolic templates (exhaust memory)"]),
    "C02": dict(decided="fault catalogue, one documented rule at a time: " + STEP + ": the broken rule is reported with its documented code family at the offending word's offset quoting its bytes; running rules are silent under check sanity; padding limit reported once at the RDH; exit-status table for all codes/flags",
                outside=["two or more rules broken at once", "faults needing more than one remembered packet", "stave-level rules", "the thread that raises the any-errors flag"]),
    "C03": dict(decided="scanner inductive step: ONE load_cdp from an arbitrary input position (tracker < 2^40) over a stream with concrete packet sizes and filter-relevant ids and otherwise symbolic contents delivers the first matching packet with its true offset, truthful header fields and exactly its payload bytes and re-establishes the position invariant (file-like and pipe-like in-memory readers, load/skip, link/FEE/stave filters incl. absent values); offset_to_next accepted iff 64..=10064 for all headers, and an invalid offset in a packet the filter skips ends the scan with InvalidData; filter predicates for all values",
                outside=["real files/pipes (StdInReaderSeeker reads io::stdin())", "payloads > 16 bytes", "batch size 100 (get_array_batch)", "whole multi-packet scans in one query (best-effort, exhaust memory)"]),
    "C04": dict(decided="unit-level crash freedom in release semantics (debug assertions off): lane-count / inner-grouping checks for arbitrary lane and fatal-lane sets, Stave::from_feeid for all FEE ids, lane helpers, RDH validators over 4 arbitrary headers, ALPIDE byte classification never yields Ape(Padding), decoder step, payload chunking for all payloads <= 40 bytes, scanner truncation",
                outside=["the process as a whole (threads, signals, stdout, exit)", "CdpRunningValidator::check on arbitrary words in stave mode", "wall-clock bounds", "uninitialised-read findings in load_payload_raw"]),
    "C07": dict(decided="composition: scanner step gives true packet offset and bytes (C03); chunk i of preprocess_payload is the slice at i*slot (pointer equality, C12); every report of a validator step carries rdh_pos + 64 + index*slot and quotes exactly the word's 10 bytes (all step harnesses); CdpTracker/ view offset formulas for all indices",
                outside=["rendering of numbers (std::fmt)", "stave-level multi-line messages", "E100/E101 positions"]),
    "C08": dict(decided="RdhCru::from_buf(b).to_byte_slice() == b for all 2^512 headers; the scanner step delivers exactly the matching packets' bytes in order (C03, load mode); layer/stave, FEE and link match predicates for all values; BufferedWriter: one pushed packet, flush, second flush with nothing new: the sink receives rdh|payload byte for byte exactly once",
                outside=["BufferedWriter with more than one buffered packet or two non-empty flushes (best-effort, exhausts 44 GB)", "files, stdout, the 1 MiB threshold, the writer thread", "union over all filter values", "stdin reader"]),
    "C09": dict(decided="ItsPayloadFsmContinuous::advance from new() over all sequences of <= 12 words (thorough: 20) is bisimilar to the documented diagram (12 implementation states, every edge covered); one step from every reachable state; reset_fsm; an identifier illegal in a state is reported ([E30]/[E40] in single-successor states, [E99x] + fallback sanity error in choice states) at the word",
                outside=["sequences longer than 12 (thorough: 20) words in one query (covered inductively by the one-step harness)"]),
    "C10": dict(decided="RdhCruSanityValidator verdict == documented rules for all 2^512 headers (default, ITS-specialised, configured version; Header ID relative to the first header seen); RdhCruRunningChecker verdict == documented automaton over all 3-header histories from an HBF start and one step from an arbitrary checker state; LinkValidator::do_rdh_checks on an arbitrary first header and on an arbitrary second header after a conforming one: number of errors, [E10], every error at that RDH's offset",
                outside=["the context rows of the RDH messages (previous RDHs, header text)", "RDH error offsets beyond the second header of a link", "page-counter overflow after 65535 pages without stop"]),
    "C11": dict(decided="every one of the 2^80 values of an IHW/TDH/TDT/DDW0: sanity verdict == documented rule (ID, reserved masks, TDH trigger rule, DDW0 index); data word: ID range verdict for all ids; lane-active verdict for all ids x all lane masks; OB input <= 6 and lane = 7*connector+input; the payload FSM classifies a byte as a data word in every state exactly for the ids in the valid ranges (one step from every reachable state, bisimulation over 8 words)",
                outside=["the error text", "the three OB ids 0x47/0x4F/0x57 whose lane shift overflows in the dev profile (noted under C04)"]),
    "C12": dict(decided="preprocess_payload on every payload of length 0..=64 (arbitrary contents, release semantics): Err iff trailing 0xFF run > 15; otherwise exactly the documented number of 16-byte or 10-byte chunks, chunk i being the slice at i*slot; on well-formed payloads the code's own debug assertions hold; over-long padding: one report at the RDH, no word examined, state reset",
                outside=["payloads > 64 (thorough: 100) bytes", "the view path"]),
    "C13": dict(decided="AlpideWord::from_byte == reference classification for all 256 bytes; LaneAlpideFrameAnalyzer::decode: one step from an arbitrary decoder state on any legal byte == reference ALPIDE transition (chip list, BC, fatal flag, readout-flag counters) -- the reference never looks at hit bytes; ReadoutFlags::log for all trailers; lane count / inner grouping verdicts",
                outside=["bunch-counter comparisons across chips and lanes (itertools::unique -> HashMap/SipHash/getrandom)", "frames spread over packets", "process_frame's message text"]),
    "C14": dict(decided="collector side: counters are the sums of the messages, err_count == number of Error messages, per-bit trigger counters, sorted links, de-duplicated FEE ids; scanner side (one step, statistics channel on): RDHSeen/RDHFiltered/PayloadSize/links/FEE ids/first-RDH values equal the ground truth of the visited packets",
                outside=["HBF / layer-stave collection inside the analysis thread", "distinct error codes (regex)", "report table, written file"]),
    "C15": dict(decided="drift-detection half: a collector that differs from the reference in exactly one collected statistic (each StatType message kind with an arbitrary value, each of the 20 counted trigger bits, each ALPIDE readout-flag counter) is rejected by validate_other_stats / AlpideStats::validate_other in both directions; identical collectors are accepted",
                outside=["JSON/TOML writing and parsing, i.e. the round-trip half of the property", "hostile strings in messages", "Controller::run's file handling and the exit status"]),
    "C16": dict(decided="util::lib::exit == documented table for all (code, flag, configured any-errors code); Config::validate_args is Err iff a documented invalid combination (check kind x target x trigger period x -E); error total == number of Error messages collected; the reader's own [E100] message starts with the position rendered by UpperHex (what the collector's position sort requires); custom-check failures counted; match_error_code (the display filter's kernel) is true iff the message's code EQUALS the listed code for all digit values (2-4 digit codes, prefix cases both ways)",
                outside=["clap parsing", "the controller thread", "the display filter's iterator plumbing over the message list (filter_error_msgs/minify_filter: best-effort harnesses exhaust memory)", "'rejected before any output is written'"]),
    "C18": dict(decided="one packet followed by arbitrary bytes, input cut in each region (RDH / payload / at the boundary / inside the next RDH; both ends of each region, contents symbolic): complete packet delivered unchanged, cut payload => RDH delivered + exactly one [E100], cut RDH => UnexpectedEof; the empty payload handed on for a cut packet (and any payload of 0..=40 bytes) goes through preprocess_payload without a panic",
                outside=["cut inside the first 8 bytes at init_processing level (fixed defect F2, shown on the binary)", "validators' reaction", "real pipes"]),
    "C19": dict(decided="view word offset formula for all indices/formats/offsets; ItsPayloadWord::from_id == identifier table for all 256 ids and agrees with the FSM's classification on allowed sequences; TDH/TDT/DDW0/RDH-trigger label functions == documented bits for all inputs",
                outside=["rows, layout, styled == unstyled, anything written to stdout"]),
    "C20": dict(decided="check_trigger_interval: Err iff (cur - prev) mod 3564 != P for all BC <= 3563 and all P; driver: [E45] exactly for consecutive internal-trigger TDHs; validate_custom_stats: [E9001]/[E9002] iff observed != configured, absent keys change nothing; configured RDH version enforced by the sanity validator (also through new_from_config with an ITS target); OB chip count / chip order verdicts on <= 3 chips; the ALPIDE decoder step that produces the chip list they consume",
                outside=["TOML parsing", "chip count/order checks reached through process_frame (behind check_bunch_counters: HashMap)"]),
}


def meta(pid):
    return PROPS.get(pid, dict(decided="see DESIGN.md", outside=[]))
