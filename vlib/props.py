"""Per-property text that goes into the evidence files: what is decided, what is outside."""

EXPLANATION = (
    "Bounded symbolic execution of the real code: Kani 0.68 translates the current /repo sources "
    "(rustc MIR) to a CBMC goto-program; harness inputs are kani::any() bit-vectors; CBMC 6.11 + CaDiCaL "
    "decide every assertion for ALL values inside the stated bounds (unwinding assertions on) or return a "
    "concrete assignment, which is replayed natively (cargo kani playback, real code, no stubs) before a "
    "VIOLATION is printed. The verdict says nothing outside the bounds listed per harness. "
    "evaluations = solver (decision-procedure) calls; distinct_nontrivial = satisfied kani::cover! witnesses "
    "(reachability of the cases each harness is about), obligations = CBMC checks decided."
)

COMMON_ASSUMPTIONS = [
    "Kani/CBMC/CaDiCaL and rustc's MIR are trusted; dev profile (debug assertions on unless stated), overflow checks on",
    "stub alloc::fmt::format -> first literal piece of the template (<= 8 bytes) or '#': the text of messages is lost, emptiness and the leading '[Exxx]' literal are kept; arguments are still evaluated by the real code",
    "stub core::fmt::write -> writes '#': callers decide Ok/Err by err_str.is_empty(); assumes every such format string renders >= 1 byte (all contain literal text)",
    "stub flume::Sender::send -> never blocks/fails, counts messages by variant, forgets the message (anything that statically reaches std::thread::current() crashes kani-compiler)",
    "format-template reader (vsup::peek) depends on core::fmt::Arguments' layout of the pinned toolchain; validated on every run by vsup_selftest_* harnesses",
]

PROPS = {
    "C11": dict(
        decided="every one of the 2^80 values of an IHW/TDH/TDT/DDW0: sanity verdict == documented rule (ID, reserved masks, TDH trigger rule, DDW0 index); data word: ID range verdict for all ids; lane-active verdict for all ids x all lane masks; OB input <= 6 and lane = 7*connector+input",
        outside=["the error text", "the three OB ids 0x47/0x4F/0x57 whose lane shift overflows in the dev profile (noted under C04)"],
    ),
}


def meta(pid):
    return PROPS.get(pid, dict(decided="see DESIGN.md", outside=[]))
