"""Staging: scratch copy of /repo's current working tree with harness modules attached.

Nothing here edits /repo. The scratch copy lives outside /repo and /verif and is removed by
the caller (check) together with all build output.
"""
import os, re, shutil, subprocess, tempfile, glob, json

ROOT = os.path.dirname(os.path.dirname(os.path.abspath(__file__)))
REPO = os.environ.get("VERIF_REPO", "/repo")
CACHE = os.path.join(ROOT, ".cache", "kani-deps")
SCRATCH_PARENT = os.environ.get("VERIF_SCRATCH", "/var/tmp")

SUPPORT = {
    # crate dir -> (support file, root source file)
    "fastpasta": ("harness/vsup_fp.rs", "fastpasta/src/lib.rs"),
    "alice_protocol_reader": ("harness/vsup_apr.rs", "alice_protocol_reader/src/lib.rs"),
}

SCRATCH_EDITS = [
    "alice_protocol_reader/src/lib.rs: #![forbid(unused_extern_crates)] -> #![deny(..)] (Kani injects an allow; lint level only)",
    "Cargo.toml: [patch.crates-io] human-panic -> no-op stand-in crate /verif/stubs/human-panic (real crate's backtrace dependency does not compile under Kani; setup_panic!() is only used in init::run(), never called by a harness)",
    "both crates: [features] verif_native = [] added (selects the native-replay half of the harness support code)",
    "harness modules attached as `#[cfg(kani)] #[path=...] mod ...;` lines appended to the source files named in each harness file (child module = private access; cfg(kani) only)",
]


class Harness:
    def __init__(self, **kw):
        self.__dict__.update(kw)

    def __repr__(self):
        return "<H %s>" % self.fq


def module_path_of(relsrc):
    """fastpasta/src/analyze/validators/its.rs -> analyze::validators::its"""
    parts = relsrc.split("/")
    assert parts[1] == "src"
    p = parts[2:]
    last = p[-1][:-3]
    p = p[:-1]
    if last == "mod" or (last in ("lib", "main") and not p):
        pass
    else:
        p = p + [last]
    return "::".join(p)


def parse_harness_file(path):
    """Returns (fileinfo, [Harness])"""
    txt = open(path).read()
    info = {"path": path, "attach": None, "mod": None}
    hs = []
    cur = None
    pending_bounds = []
    for line in txt.splitlines():
        m = re.match(r"\s*//@\s*(\w+):\s*(.*)$", line)
        if m:
            k, v = m.group(1), m.group(2).strip()
            if k in ("attach", "mod"):
                info[k] = v
            elif k == "harness":
                toks = v.split()
                d = dict(name=toks[0], props=[], tier="quick", cls="functional", covers=0, mem=8,
                         timeout=600, required=True, bounds=[], extra=[], est=60, kani_args=[], also=[])
                for t in toks[1:]:
                    kk, vv = t.split("=", 1)
                    if kk == "props":
                        d["props"] = vv.split(",")
                    elif kk == "tier":
                        d["tier"] = vv
                    elif kk == "class":
                        d["cls"] = vv
                    elif kk in ("covers", "mem", "timeout", "est"):
                        d[kk] = int(vv)
                    elif kk == "required":
                        d["required"] = vv not in ("no", "0", "false")
                    elif kk == "also":
                        d["also"] = vv.split(",")
                    elif kk == "args":
                        d["kani_args"] = vv.split(",")
                    else:
                        raise ValueError("bad harness directive %s in %s" % (t, path))
                cur = d
                hs.append(d)
            elif k == "bounds" and cur is not None:
                cur["bounds"].append(v)
            elif k == "stubs" and cur is not None:
                cur["extra"].append(v)
            continue
    if not info["attach"] or not info["mod"]:
        if hs:
            raise ValueError("harness file %s lacks attach/mod" % path)
        return info, []
    crate = info["attach"].split("/")[0]
    mp = module_path_of(info["attach"])
    out = []
    for d in hs:
        fq = "::".join([x for x in (mp, info["mod"], d["name"]) if x])
        out.append(Harness(file=path, attach=info["attach"], crate=crate, mod=info["mod"], fq=fq, **d))
    info["crate"] = crate
    return info, out


def all_harnesses():
    files = sorted(glob.glob(os.path.join(ROOT, "harness", "*.rs")))
    infos, hs = {}, []
    for f in files:
        if os.path.basename(f).startswith("vsup"):
            continue
        info, h = parse_harness_file(f)
        infos[f] = info
        hs.extend(h)
    return infos, hs


def sh(cmd, **kw):
    return subprocess.run(cmd, shell=isinstance(cmd, str), check=True, **kw)


class repo_lock:
    """serialises the moments at which /repo's working tree is read (and, for --patch, briefly modified)"""

    def __enter__(self):
        import fcntl
        self.f = open(os.path.join(SCRATCH_PARENT, "fpverif.lock"), "w")
        fcntl.flock(self.f, fcntl.LOCK_EX)
        return self

    def __exit__(self, *a):
        import fcntl
        fcntl.flock(self.f, fcntl.LOCK_UN)
        self.f.close()


def make_scratch():
    os.makedirs(SCRATCH_PARENT, exist_ok=True)
    return tempfile.mkdtemp(prefix="fpverif.", dir=SCRATCH_PARENT)


def copy_repo(dst, harness_files, release_semantics=False):
    """Copy /repo's working tree to dst and attach the given harness files."""
    os.makedirs(dst, exist_ok=True)
    sh(["rsync", "-a", "--delete", "--exclude", "/target", "--exclude", "/.git", REPO + "/", dst + "/"])
    # 1. lint level
    p = os.path.join(dst, "alice_protocol_reader/src/lib.rs")
    s = open(p).read()
    s = s.replace("#![forbid(unused_extern_crates)]", "#![deny(unused_extern_crates)]")
    open(p, "w").write(s)
    # 2. workspace manifest
    p = os.path.join(dst, "Cargo.toml")
    s = open(p).read()
    s += '\n[patch.crates-io]\nhuman-panic = { path = "%s/stubs/human-panic" }\n' % ROOT
    if release_semantics:
        s += ("\n[profile.dev.package.fastpasta]\ndebug-assertions = false\n"
              "\n[profile.dev.package.alice_protocol_reader]\ndebug-assertions = false\n")
    open(p, "w").write(s)
    for crate in ("fastpasta", "alice_protocol_reader"):
        p = os.path.join(dst, crate, "Cargo.toml")
        s = open(p).read()
        if re.search(r"^\[features\]", s, re.M):
            s = re.sub(r"^\[features\]\s*$", "[features]\nverif_native = []", s, count=1, flags=re.M)
        else:
            s += "\n[features]\nverif_native = []\n"
        open(p, "w").write(s)
    # 3. attach
    crates = set()
    missing = []
    for hf in harness_files:
        info, _ = parse_harness_file(hf)
        crates.add(info["crate"])
        tgt = os.path.join(dst, info["attach"])
        if not os.path.exists(tgt):
            missing.append(info["attach"])
            continue
        with open(tgt, "a") as f:
            f.write('\n#[cfg(kani)]\n#[path = "%s"]\nmod %s;\n' % (hf, info["mod"]))
    for crate in crates:
        sup, root = SUPPORT[crate]
        with open(os.path.join(dst, root), "a") as f:
            f.write('\n#[cfg(kani)]\n#[path = "%s"]\npub(crate) mod vsup;\n' % os.path.join(ROOT, sup))
    return missing


def kani_env():
    env = dict(os.environ)
    env["CARGO_NET_OFFLINE"] = "true"
    env["VERIF_ROOT"] = ROOT
    env.pop("RUSTFLAGS", None)
    env.pop("CARGO_TARGET_DIR", None)
    env.pop("RUSTUP_TOOLCHAIN", None)
    return env


def build_cache(log=None):
    """(Re)build the cache of Kani-compiled third-party dependencies. Nothing derived from
    /repo's own sources is kept."""
    scratch = make_scratch()
    try:
        rp = os.path.join(scratch, "repo")
        copy_repo(rp, [])
        # a trivial harness so that `cargo kani` builds everything
        for crate in ("fastpasta", "alice_protocol_reader"):
            with open(os.path.join(rp, crate, "src/lib.rs"), "a") as f:
                f.write("\n#[cfg(kani)]\n#[kani::proof]\nfn verif_cache_probe() { let x: u8 = kani::any(); assert!(x as u16 <= 255); }\n")
        td = os.path.join(scratch, "target")
        for crate in ("fastpasta", "alice_protocol_reader"):
            r = subprocess.run(["cargo", "kani", "--harness", "verif_cache_probe", "--exact", "--target-dir", td],
                               cwd=os.path.join(rp, crate), env=kani_env(), stdout=subprocess.PIPE,
                               stderr=subprocess.STDOUT, text=True)
            if log:
                log.write(r.stdout)
            if "VERIFICATION:- SUCCESSFUL" not in r.stdout:
                raise RuntimeError("cache build failed for %s:\n%s" % (crate, r.stdout[-3000:]))
        # drop workspace crates' own artifacts
        for root, dirs, files in os.walk(td):
            for fn in files:
                if re.match(r"(lib)?(fastpasta|alice_protocol_reader)[-.]", fn):
                    os.unlink(os.path.join(root, fn))
            for d in list(dirs):
                if re.match(r"(fastpasta|alice_protocol_reader)-[0-9a-f]+$", d):
                    shutil.rmtree(os.path.join(root, d))
                    dirs.remove(d)
        if os.path.exists(CACHE):
            shutil.rmtree(CACHE)
        os.makedirs(os.path.dirname(CACHE), exist_ok=True)
        shutil.move(td, CACHE)
    finally:
        shutil.rmtree(scratch, ignore_errors=True)


def fresh_target(dst):
    """A private --target-dir, warm with the dependency cache if there is one."""
    if os.path.isdir(CACHE):
        sh(["cp", "-a", CACHE, dst])
    else:
        os.makedirs(dst, exist_ok=True)
