"""Counterexample extraction from a *sliced* CBMC trace.

Kani's own `--concrete-playback` runs CBMC without formula slicing (so that every kani::any() has
a value in the trace); on the harnesses here that makes the solver call 40x slower or not finish.
This module asks CBMC for the trace of ONE failed property with `--slice-formula` (seconds), keeps
the order of the kani::any_raw_* calls from the trace's function-call steps, takes the values the
solver assigned, and fills the inputs the property does not depend on (sliced away) with zeros.
The result is the same `Vec<Vec<u8>>` that Kani's generated playback test uses, and it is run
through `kani::concrete_playback_run` natively exactly like Kani's own test would be.
"""
import json, os, re, subprocess

FUNC_CBMC_FLAGS = ["--no-malloc-may-fail", "--no-undefined-shift-check", "--no-signed-overflow-check",
                   "--no-bounds-check", "--no-pointer-check", "--no-div-by-zero-check",
                   "--no-self-loops-to-assumptions", "--no-pointer-primitive-check", "--object-bits", "16",
                   "--sat-solver", "cadical"]
# as observed (ps) for a default `cargo kani` run of this Kani version
CRASH_CBMC_FLAGS = ["--no-malloc-may-fail", "--no-undefined-shift-check", "--no-signed-overflow-check", "--nan-check",
                    "--no-self-loops-to-assumptions", "--no-pointer-primitive-check", "--object-bits", "16",
                    "--sat-solver", "cadical"]


def harness_unwind(h):
    """the #[kani::unwind(N)] of a harness (Kani passes it to CBMC as --unwind N)"""
    try:
        txt = open(h.file).read()
    except Exception:
        return None
    m = re.search(r"#\[kani::unwind\((\d+)\)\][^\n]*\n(?:\s*#\[[^\n]*\n)*\s*fn %s\b" % re.escape(h.name), txt)
    if m:
        return int(m.group(1))
    m = re.search(r"S!\(%s,\s*(\d+)," % re.escape(h.name), txt)
    if m:
        return int(m.group(1))
    if re.search(r"H!\(%s," % re.escape(h.name), txt):
        m = re.search(r"macro_rules! H \{.*?#\[kani::unwind\((\d+)\)\]", txt, re.S)
        return int(m.group(1)) if m else None
    return None

SIZES = {"u8": 1, "i8": 1, "bool": 1, "u16": 2, "i16": 2, "u32": 4, "i32": 4, "char": 4, "f32": 4,
         "u64": 8, "i64": 8, "usize": 8, "isize": 8, "f64": 8, "u128": 16, "i128": 16}


def goto_file_from_log(body):
    m = re.search(r"Reading GOTO program from file (\S+)", body)
    return m.group(1) if m else None


def _to_bytes(binary, size):
    v = int(binary, 2) if binary else 0
    return list((v & ((1 << (8 * size)) - 1)).to_bytes(size, "little"))


def extract(trace):
    """-> list of byte lists (one per kani::any_raw_internal call, arrays one per element)"""
    vals = []
    cur = None  # (kind, elem_size, start_index, n)
    depth = 0
    for st in trace:
        t = st.get("stepType")
        if t == "function-call":
            fn = st["function"]["displayName"]
            if cur is None:
                m = re.match(r"kani::any_raw_internal::<(.+)>$", fn)
                if m:
                    ty = m.group(1)
                    if ty not in SIZES:
                        raise ValueError("unsupported any_raw_internal type " + ty)
                    cur = ("scalar", SIZES[ty], len(vals), 1)
                    vals.append([0] * SIZES[ty])
                    depth = 1
                    continue
                m = re.match(r"kani::any_raw_array::<(.+), (\d+)>$", fn)
                if m:
                    ty, n = m.group(1), int(m.group(2))
                    if ty not in SIZES:
                        raise ValueError("unsupported any_raw_array type " + ty)
                    cur = ("array", SIZES[ty], len(vals), n)
                    for _ in range(n):
                        vals.append([0] * SIZES[ty])
                    depth = 1
                    continue
            else:
                depth += 1
        elif t == "function-return":
            if cur is not None:
                depth -= 1
                if depth == 0:
                    cur = None
        elif t == "assignment" and cur is not None and depth == 1:
            lhs = st.get("lhs", "")
            v = st.get("value", {})
            kind, sz, start, n = cur
            if kind == "scalar" and lhs == "var_0" and "binary" in v:
                vals[start] = _to_bytes(v["binary"], sz)
            elif kind == "array":
                m = re.match(r"var_0\[(\d+)[lLuU]*\]$", lhs)
                if m and "binary" in v and int(m.group(1)) < n:
                    vals[start + int(m.group(1))] = _to_bytes(v["binary"], sz)
                elif lhs == "var_0" and v.get("name") == "array":
                    for i, e in enumerate(v.get("elements", [])[:n]):
                        ev = e.get("value", {})
                        if "binary" in ev:
                            vals[start + i] = _to_bytes(ev["binary"], sz)
    return vals


def trace_for_property(goto_file, prop_name, cls, timeout=900, mem_gb=24, unwind=None):
    flags = list(CRASH_CBMC_FLAGS if cls == "crash" else FUNC_CBMC_FLAGS)
    if unwind:
        flags += ["--unwind", str(unwind)]
    cmd = ["cbmc"] + flags + ["--slice-formula", "--trace", "--compact-trace", "--property", prop_name,
                              goto_file, "--json-ui"]
    import resource

    def lim():
        b = int(mem_gb * 1024 ** 3)
        resource.setrlimit(resource.RLIMIT_AS, (b, b))

    p = subprocess.run(cmd, stdout=subprocess.PIPE, stderr=subprocess.DEVNULL, timeout=timeout, preexec_fn=lim)
    d = json.loads(p.stdout.decode(errors="replace"))
    for e in d:
        if isinstance(e, dict) and "result" in e:
            for r in e["result"]:
                if r.get("property") == prop_name and r.get("status") == "FAILURE" and "trace" in r:
                    return r["trace"]
    return None


def test_code(harness_fn, test_name, vals, desc):
    lines = ["/// counterexample for: %s" % desc.replace("\n", " ")[:200],
             "#[test]", "fn %s() {" % test_name, "    let concrete_vals: Vec<Vec<u8>> = vec!["]
    for v in vals:
        lines.append("        vec![%s]," % ", ".join(str(b) for b in v))
    lines += ["    ];", "    kani::concrete_playback_run(concrete_vals, %s);" % harness_fn, "}"]
    return "\n".join(lines) + "\n"
