"""Run groups of Kani harnesses on the staged copy and parse CBMC's per-check verdicts."""
import os, re, subprocess, time, resource, threading, json, shutil
from . import stage

FUNC_FLAGS = ["--no-memory-safety-checks", "--no-overflow-checks", "--no-assertion-reach-checks"]

DEVONLY_PREFIXES = (
    "attempt to add with overflow", "attempt to subtract with overflow",
    "attempt to multiply with overflow", "attempt to shift left with overflow",
    "attempt to shift right with overflow", "attempt to negate with overflow",
    "arithmetic overflow on",
)


CRATE_FN = re.compile(r"(^|<|\s)(analyze|words|stats|config|util|write|controller|init|input_scanner|mem_pos_tracker|rdh|cdp_wrapper|stdin_reader|bufreader_wrapper|scan_cdp)::")


class Check:
    __slots__ = ("num", "name", "status", "desc", "loc", "func")

    def __init__(self, num, name):
        self.num, self.name = num, name
        self.status = self.desc = self.loc = self.func = ""

    def is_cover(self):
        return ".cover." in self.name or self.status in ("SATISFIED", "UNSATISFIABLE", "UNREACHABLE") and "cover" in self.name

    def as_dict(self):
        return dict(check=self.name, status=self.status, description=self.desc, location=self.loc)


class HResult:
    def __init__(self, h):
        self.h = h
        self.status = "not-run"   # pass | fail | vacuous | inconclusive
        self.reason = ""
        self.checks = []
        self.failed = []          # Check objects with FAILURE (non-cover)
        self.devonly = []         # failed checks that are dev-profile-only overflow checks
        self.covers_sat = 0
        self.covers_total = 0
        self.unsat_covers = []
        self.time_s = 0.0
        self.symex_s = 0.0
        self.solver_s = 0.0
        self.solver_calls = 0
        self.vars = 0
        self.clauses = 0
        self.steps = 0
        self.stubs = []
        self.functions = set()
        self.raw = ""
        self.known = []           # known findings matched
        self.replays = []         # paths of reproduced counterexamples
        self.nonrepro = []


def _limit(mem_gb):
    def f():
        lim = int(mem_gb * 1024 ** 3)
        resource.setrlimit(resource.RLIMIT_AS, (lim, lim))
        os.setsid()
    return f


def parse_output(txt, harnesses):
    """Split kani output per harness and fill HResults."""
    byfq = {h.fq: HResult(h) for h in harnesses}
    parts = re.split(r"^Checking harness (\S+?)\.\.\.$", txt, flags=re.M)
    head = parts[0]
    compile_error = None
    if re.search(r"^error(\[E\d+\])?:", head, re.M) and len(parts) == 1:
        m = re.search(r"^error.*?(?=^\s*$)", head, re.M | re.S)
        compile_error = (m.group(0) if m else head)[-1500:]
    for i in range(1, len(parts), 2):
        fq, body = parts[i], parts[i + 1]
        r = byfq.get(fq)
        if r is None:
            continue
        r.raw = body
        _parse_body(r, body)
    for r in byfq.values():
        if r.status == "not-run":
            r.status = "inconclusive"
            if compile_error:
                r.reason = "build failed: " + compile_error.strip().splitlines()[0][:300]
            elif "error: internal compiler error" in txt or "kani-compiler" in txt and "panicked" in txt:
                r.reason = "kani-compiler crashed"
            else:
                r.reason = "harness did not run (group ended early: timeout, crash or missing harness)"
    return list(byfq.values()), compile_error


def _parse_body(r, body):
    r.stubs = [s.strip() for s in re.findall(r"^\s*- Stub: (.*)$", body, re.M)]
    for m in re.finditer(r"^Runtime Symex: ([\d.eE+-]+)s", body, re.M):
        r.symex_s += float(m.group(1))
    for m in re.finditer(r"^Runtime decision procedure: ([\d.eE+-]+)s", body, re.M):
        r.solver_s += float(m.group(1))
        r.solver_calls += 1
    for m in re.finditer(r"^(\d+) variables, (\d+) clauses", body, re.M):
        r.vars = max(r.vars, int(m.group(1)))
        r.clauses = max(r.clauses, int(m.group(2)))
    m = re.search(r"size of program expression: (\d+) steps", body)
    if m:
        r.steps = int(m.group(1))
    m = re.search(r"^Verification Time: ([\d.]+)s", body, re.M)
    if m:
        r.time_s = float(m.group(1))
    cur = None
    for line in body.splitlines():
        m = re.match(r"^Check (\d+): (.*)$", line)
        if m:
            cur = Check(int(m.group(1)), m.group(2).strip())
            r.checks.append(cur)
            continue
        if cur is not None:
            m = re.match(r"^\s+- Status: (\S+)", line)
            if m:
                cur.status = m.group(1)
                continue
            m = re.match(r"^\s+- Description: (.*)$", line)
            if m:
                cur.desc = m.group(1).strip().strip('"')
                continue
            m = re.match(r"^\s+- Location: (.*)$", line)
            if m:
                cur.loc = m.group(1).strip()
                mm = re.search(r" in function (.*)$", cur.loc)
                if mm:
                    cur.func = mm.group(1).strip()
                cur = None
    for c in r.checks:
        if c.func and CRATE_FN.search(c.func) and "verif_" not in c.func and "vsup" not in c.func:
            r.functions.add(re.sub(r"::<[^>]*>$", "", c.func))
        if ".cover." in c.name:
            r.covers_total += 1
            if c.status == "SATISFIED":
                r.covers_sat += 1
            else:
                r.unsat_covers.append(c)
        elif c.status == "FAILURE":
            if c.desc.startswith(DEVONLY_PREFIXES):
                r.devonly.append(c)
            else:
                r.failed.append(c)
    verdict = None
    m = re.search(r"^VERIFICATION:- (\w+)", body, re.M)
    if m:
        verdict = m.group(1)
    unwind_fail = [c for c in r.failed if "unwinding assertion" in c.desc]
    undetermined = [c for c in r.checks if c.status == "UNDETERMINED"]
    if verdict is None:
        r.status = "inconclusive"
        if "CBMC timed out" in body or "timed out" in body:
            r.reason = "solver time cap reached"
        elif re.search(r"Status: ERROR|Out of memory|std::bad_alloc|exited with status|signal", body):
            r.reason = "solver ended abnormally (memory cap or crash)"
        else:
            r.reason = "no verdict in output"
        return
    if unwind_fail:
        r.status = "inconclusive"
        r.reason = "unwinding assertion failed (bound too small for this code): " + unwind_fail[0].loc
        r.failed = [c for c in r.failed if c not in unwind_fail]
        return
    if r.failed:
        r.status = "fail"
        return
    if verdict != "SUCCESSFUL" and re.search(r"Out of memory|CBMC failed with status|CBMC timed out|Status: ERROR", body):
        r.status = "inconclusive"
        r.reason = "solver ended abnormally: " + (re.search(r"Out of memory|CBMC failed with status \d+|CBMC timed out|Status: ERROR", body).group(0))
        return
    if verdict != "SUCCESSFUL":
        # FAILED without a failed check: solver error / OOM / only dev-only notes
        if r.devonly and not undetermined and re.search(r"\*\* (\d+) of \d+ failed", body) and \
                int(re.search(r"\*\* (\d+) of \d+ failed", body).group(1)) == len(r.devonly):
            pass
        else:
            r.status = "inconclusive"
            r.reason = "VERIFICATION FAILED without a failed check (solver error / memory cap)"
            return
    if r.unsat_covers:
        r.status = "vacuous"
        r.reason = "cover not satisfied: " + "; ".join(c.desc for c in r.unsat_covers[:4])
        return
    if r.covers_total < r.h.covers:
        r.status = "vacuous"
        r.reason = "expected %d covers, found %d" % (r.h.covers, r.covers_total)
        return
    r.status = "pass"


def repo_sub(cls):
    """crash-class and functional_rel harnesses are compiled with the workspace crates' debug assertions off"""
    return "repo_rel" if cls in ("crash", "functional_rel") else "repo"


def kani_cmd(h_list, target_dir, cls, extra=None):
    cmd = ["cargo", "kani", "-Z", "stubbing", "-Z", "unstable-options", "--exact", "--target-dir", target_dir]
    for h in h_list:
        cmd += ["--harness", h.fq]
    if cls.startswith("functional"):
        cmd += FUNC_FLAGS
    to = max(h.timeout for h in h_list)
    cmd += ["--harness-timeout", "%ds" % to]
    for a in (h_list[0].kani_args or []):
        cmd.append(a)
    if extra:
        cmd += extra
    return cmd


def run_group(repo_dir, crate, h_list, target_dir, cls, logpath, extra=None, mem_extra=0):
    """One `cargo kani` invocation for several harnesses of the same crate and class."""
    mem = max(h.mem for h in h_list) * (3 if mem_extra else 1) + mem_extra
    cmd = kani_cmd(h_list, target_dir, cls, extra)
    total_to = sum(h.timeout for h in h_list) + 600
    t0 = time.time()
    with open(logpath, "w") as lf:
        lf.write("# " + " ".join(cmd) + "\n")
        lf.flush()
        p = subprocess.Popen(cmd, cwd=os.path.join(repo_dir, crate), env=stage.kani_env(), stdout=lf,
                             stderr=subprocess.STDOUT, preexec_fn=_limit(max(mem, 8)))
        try:
            p.wait(timeout=total_to)
        except subprocess.TimeoutExpired:
            try:
                os.killpg(p.pid, 9)
            except Exception:
                pass
            p.wait()
            lf.write("\n### group killed after %d s\n" % total_to)
    txt = open(logpath, errors="replace").read()
    res, cerr = parse_output(txt, h_list)
    for r in res:
        r.group_wall = time.time() - t0
    return res, cerr


_MUT_STATICS = None


def mutable_static_names():
    """names of every `static mut` in the harness/support/oracle sources"""
    global _MUT_STATICS
    if _MUT_STATICS is None:
        import glob
        names = set()
        root = os.path.dirname(os.path.dirname(os.path.abspath(__file__)))
        for f in glob.glob(os.path.join(root, "harness", "*.rs")) + glob.glob(os.path.join(root, "oracle", "*.rs")):
            for m in re.finditer(r"^\s*(?:pub(?:\([a-z]+\))?\s+)?static\s+mut\s+([A-Z_0-9]+)\s*:", open(f).read(), re.M):
                names.add(m.group(1))
        _MUT_STATICS = sorted(names)
    return _MUT_STATICS


def alias_guard(target_dir, h_list):
    """Kani 0.68 materialises struct-typed constants by looking up an allocation with the same bytes and may
    pick one of the harness code's `static mut`s (seen: RawVec's Cap::ZERO read from a `static mut N: usize = 0`).
    All such statics now have unique initial bytes; this guard proves, per goto binary, that no function outside
    the harness/support modules takes the address of one. -> {harness name: 'fn reads STATIC'}"""
    import glob
    names = mutable_static_names()
    if not names:
        return {}
    pat = re.compile(r"address_of\((_R[A-Za-z0-9_]*?\d+(?:%s))\)" % "|".join(re.escape(n) for n in names))
    # a stubbed function keeps its ORIGINAL name and has the stub's body (which may use the statics)
    stubbed = set()
    for h in h_list:
        try:
            for m in re.finditer(r"#\[kani::stub\(\s*([^,]+?)\s*,", open(h.file).read()):
                stubbed.add(re.sub(r"<.*?>", "", m.group(1)).split("::")[-1].strip(" >"))
        except Exception:
            pass

    def is_stub_target(pretty):
        last = re.sub(r"<[^<>]*>", "", re.sub(r"<[^<>]*>", "", pretty)).split("::")[-1].strip(" >")
        return last in stubbed
    hdr = re.compile(r"^(\S.*) /\* (\S+) \*/$")
    bad = {}
    for h in h_list:
        outs = [f for f in glob.glob(os.path.join(target_dir, "kani", "*", "debug", "build", "*", "*", "out", "*%s.out" % h.name))
                if not f.endswith(".symtab.out") and ".type_map" not in f and ".kani-metadata" not in f and ".pretty_name_map" not in f]
        for g in outs:
            try:
                p = subprocess.Popen(["goto-instrument", "--show-goto-functions", g], stdout=subprocess.PIPE,
                                     stderr=subprocess.DEVNULL, text=True, errors="replace")
            except Exception:
                continue
            cur, cur_m = "", ""
            for line in p.stdout:
                if line and not line[0].isspace():
                    m = hdr.match(line.rstrip("\n"))
                    if m:
                        cur, cur_m = m.group(1), m.group(2)
                    continue
                if "address_of(_R" not in line:
                    continue
                m = pat.search(line)
                if m and not ("4vsup" in cur_m or "verif_" in cur_m or "vsup" in cur or "verif_" in cur or is_stub_target(cur)):
                    bad[h.name] = "%s reads %s" % (cur[:120], m.group(1)[-40:])
                    break
            p.stdout.close()
            p.wait()
    return bad


def pack(hs, ngroups):
    """longest-processing-time bin packing by estimated seconds"""
    groups = [[] for _ in range(max(1, ngroups))]
    load = [0] * len(groups)
    for h in sorted(hs, key=lambda h: -h.est):
        i = load.index(min(load))
        groups[i].append(h)
        load[i] += h.est + 5
    return [g for g in groups if g]


def run_all(scratch, harnesses, seed=0, max_parallel=None, mem_budget_gb=48, log=print):
    """harnesses: list of Harness. Returns list of HResult."""
    import random
    rnd = random.Random(seed)
    hs = list(harnesses)
    rnd.shuffle(hs)
    # partitions by (crate, class)
    parts = {}
    for h in hs:
        parts.setdefault((h.crate, h.cls, tuple(h.kani_args or [])), []).append(h)
    ncpu = os.cpu_count() or 8
    if max_parallel is None:
        max_parallel = max(1, min(12, ncpu - 4))
    total_est = sum(h.est for h in hs) or 1
    jobs = []
    for (crate, cls, _ka), lst in parts.items():
        share = max(1, round(max_parallel * sum(h.est for h in lst) / total_est))
        # harnesses that need a lot of memory run in their own group
        big = [h for h in lst if h.mem > 16]
        small = [h for h in lst if h.mem <= 16]
        for g in pack(small, min(share, len(small))) if small else []:
            jobs.append((crate, cls, g))
        for h in big:
            jobs.append((crate, cls, [h]))
    jobs.sort(key=lambda j: -sum(h.est for h in j[2]))
    results = []
    lock = threading.Lock()
    sem_mem = [mem_budget_gb]
    cond = threading.Condition()
    running = [0]

    def worker(idx, crate, cls, g):
        # `mem` is the hard cap (RLIMIT_AS) of a harness; what it is EXPECTED to use on the unchanged tree is far
        # less for the small ones (measured 0.5-3 GB), and scheduling by the cap left most cores idle
        need = max(max((h.mem if h.mem > 16 else max(4, h.mem // 3)) for h in g), 4)
        with cond:
            while running[0] >= max_parallel or (sem_mem[0] < need and running[0] > 0):
                cond.wait()
            running[0] += 1
            sem_mem[0] -= need
        try:
            repo_dir = os.path.join(scratch, repo_sub(cls))
            td = os.path.join(scratch, "t%d" % idx)
            stage.fresh_target(td)
            logpath = os.path.join(scratch, "group%d.log" % idx)
            log("  group %d: %s/%s %s" % (idx, crate, cls, ",".join(h.name for h in g)))
            res, cerr = run_group(repo_dir, crate, g, td, cls, logpath)
            keep = False
            try:
                aliased = alias_guard(td, g)
            except Exception as e:  # the guard must never turn into a verdict by crashing
                aliased = {h.name: "alias guard failed: %r" % (e,) for h in g}
            for r in res:
                if r.h.name in aliased and r.status in ("pass", "fail"):
                    r.status = "inconclusive"
                    r.reason = "constant aliased to a mutable harness static (Kani allocation lookup): " + aliased[r.h.name]
            for r in res:
                if r.status == "fail":
                    from . import cex
                    r.goto_file = cex.goto_file_from_log(r.raw)
                    keep = True
            if not keep:
                shutil.rmtree(td, ignore_errors=True)
            with lock:
                results.extend(res)
        finally:
            with cond:
                running[0] -= 1
                sem_mem[0] += need
                cond.notify_all()

    threads = []
    for i, (crate, cls, g) in enumerate(jobs):
        t = threading.Thread(target=worker, args=(i, crate, cls, g))
        t.start()
        threads.append(t)
    for t in threads:
        t.join()
    return results
