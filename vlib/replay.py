"""Replay of solver counterexamples against the natively compiled real code.

Kani prints, for each failed check, a unit test that feeds the solver's concrete values to the
same harness function (`kani::concrete_playback_run`). That test is appended to the scratch copy
of the harness file and run with `cargo kani playback` = an ordinary `cargo test` of the crate:
rustc + LLVM, no stub active (kani::stub is a no-op there), real `format!`, real channels; the
harness support code switches to parsing the real messages (`--features verif_native`).
Only a counterexample whose native test FAILS is reported as a violation.
"""
import os, re, subprocess, shutil, json, time
from . import stage, run, cex


def extract_tests(txt):
    out = []
    for m in re.finditer(r"Concrete playback unit test for `([^`]+)`:\n```\n(.*?)```", txt, re.S):
        fq, code = m.group(1), m.group(2)
        mm = re.search(r"/// Check for `([^`]*)`: (.*)", code)
        kind = mm.group(1) if mm else ""
        desc = mm.group(2).strip().strip('"') if mm else ""
        nm = re.search(r"fn (kani_concrete_playback_\w+)\(", code)
        out.append(dict(fq=fq, kind=kind, desc=desc, name=nm.group(1) if nm else None, code=code))
    return out


def run_playback(repo_dir, crate, scratch, name_filter, timeout=1200):
    env = stage.kani_env()
    env["CARGO_TARGET_DIR"] = os.path.join(scratch, "tpb")
    env["RUST_BACKTRACE"] = "0"
    cmd = ["cargo", "kani", "playback", "-Z", "concrete-playback", "--features", "verif_native", "--lib",
           "--", name_filter, "--test-threads", "1"]
    p = subprocess.run(cmd, cwd=os.path.join(repo_dir, crate), env=env, stdout=subprocess.PIPE,
                       stderr=subprocess.STDOUT, timeout=timeout)
    return p.stdout.decode(errors="replace")


def _native_verdicts(scratch, r, prop, tests, repo_dir, log):
    """tests: list of dict(name, code, desc). Appends them to the scratch harness copy, runs them natively."""
    h = r.h
    hf = os.path.join(scratch, "harness", os.path.basename(h.file))
    with open(hf, "a") as f:
        for t in tests:
            f.write("\n" + t["code"] + "\n")
    try:
        out = run_playback(repo_dir, h.crate, scratch, "kani_concrete_playback_%s_" % h.name)
    except subprocess.TimeoutExpired:
        r.nonrepro.append("native replay timed out")
        return 0
    n = 0
    for t in tests:
        m = re.search(r"^test \S*%s \.\.\. (\w+)" % re.escape(t["name"]), out, re.M)
        verdict = m.group(1) if m else "missing"
        if verdict == "FAILED":
            d = os.path.join(stage.ROOT, "replays", prop, "%s_%d" % (h.name, len(r.replays)))
            shutil.rmtree(d, ignore_errors=True)
            os.makedirs(d)
            open(os.path.join(d, "test.rs"), "w").write(t["code"])
            pm = re.search(r"---- \S*%s stdout ----\n(.*?)(?=\n----|\nfailures:)" % re.escape(t["name"]), out, re.S)
            json.dump(dict(property=prop, harness=h.fq, harness_file=os.path.relpath(os.path.join(stage.ROOT, "harness", os.path.basename(h.file)), stage.ROOT),
                           crate=h.crate, cls=h.cls, failed_check=t["desc"], test=t["name"],
                           native_output=(pm.group(1) if pm else "")[-2000:],
                           how="./check %s --replay %s" % (prop, os.path.relpath(d, stage.ROOT))),
                      open(os.path.join(d, "meta.json"), "w"), indent=1)
            r.replays.append(d)
            n += 1
        else:
            last = out.strip().splitlines()[-1][:200] if (not m and out.strip()) else ""
            r.nonrepro.append("check '%s': native test verdict %s %s" % (t["desc"][:120], verdict, last))
    return n


def replay_failed(scratch, r, prop, log=print):
    """r: HResult with status fail. Fills r.replays / r.nonrepro. Returns #reproduced."""
    h = r.h
    repo_dir = os.path.join(scratch, run.repo_sub(h.cls))
    # 1. sliced CBMC trace of each failed property (fast), inputs rebuilt from the trace
    tests = []
    gf = getattr(r, "goto_file", None)
    seen = set()
    if gf and os.path.exists(gf):
        for k, c in enumerate(r.failed):
            if c.desc in seen or len(tests) >= 3:
                continue
            seen.add(c.desc)
            try:
                tr = cex.trace_for_property(gf, c.name, h.cls, unwind=cex.harness_unwind(h))
                if tr is None:
                    r.nonrepro.append("no trace for %s" % c.name)
                    continue
                vals = cex.extract(tr)
                name = "kani_concrete_playback_%s_s%d" % (h.name, k)
                tests.append(dict(name=name, desc=c.desc, code=cex.test_code(h.name, name, vals, c.desc)))
            except Exception as e:  # noqa
                r.nonrepro.append("trace extraction failed for %s: %s" % (c.name, str(e)[:200]))
    if tests:
        n = _native_verdicts(scratch, r, prop, tests, repo_dir, log)
        if n:
            return n
    # 2. fall back to Kani's own concrete playback (unsliced; may not finish on large harnesses)
    td = os.path.join(scratch, "t_replay")
    if not os.path.isdir(td):
        stage.fresh_target(td)
    logpath = os.path.join(scratch, "replay_%s.log" % h.name)
    res, cerr = run.run_group(repo_dir, h.crate, [h], td, h.cls, logpath,
                              extra=["-Z", "concrete-playback", "--concrete-playback=print"], mem_extra=8)
    txt = open(logpath, errors="replace").read()
    ktests = [t for t in extract_tests(txt) if t["fq"] == h.fq and t["kind"] != "cover" and t["name"]]
    want = set(c.desc for c in r.failed)
    sel = [t for t in ktests if t["desc"] in want] or ktests
    if not sel:
        why = "solver error/memory cap during trace generation" if "Status: ERROR" in txt else ("time cap" if "timed out" in txt else "no test printed")
        r.nonrepro.append("Kani playback gave no concrete values (%s)" % why)
        return 0
    seen, uniq = set(), []
    for t in sel:
        if t["desc"] in seen:
            continue
        seen.add(t["desc"])
        uniq.append(t)
    return _native_verdicts(scratch, r, prop, uniq, repo_dir, log)


def replay_saved(path, log=print):
    """./check <prop> --replay <dir>: rebuild the scratch copy from the current /repo and run the saved test."""
    meta = json.load(open(os.path.join(path, "meta.json")))
    code = open(os.path.join(path, "test.rs")).read()
    scratch = stage.make_scratch()
    try:
        hdir = os.path.join(scratch, "harness")
        shutil.copytree(os.path.join(stage.ROOT, "harness"), hdir)
        hf = os.path.join(hdir, os.path.basename(meta["harness_file"]))
        open(hf, "a").write("\n" + code + "\n")
        repo_dir = os.path.join(scratch, "repo")
        stage.copy_repo(repo_dir, [hf], release_semantics=(run.repo_sub(meta.get("cls", "")) == "repo_rel"))
        out = run_playback(repo_dir, meta["crate"], scratch, meta["test"])
        m = re.search(r"^test \S*%s \.\.\. (\w+)" % re.escape(meta["test"]), out, re.M)
        verdict = m.group(1) if m else "missing"
        log(out[-3000:])
        return verdict
    finally:
        shutil.rmtree(scratch, ignore_errors=True)
